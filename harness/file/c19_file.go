//go:build verif

package file

func refLineCol(src string, offset int) (line, col int) {
	line = 1
	start := 0
	for i := 0; i < offset; i++ {
		c := src[i]
		switch {
		case c == '\r':
			line++
			start = i + 1
		case c == '\n':
			if i == 0 || src[i-1] != '\r' {
				line++
			}
			start = i + 1
		case c == 0xE2 && i+2 < offset && src[i+1] == 0x80 && (src[i+2] == 0xA8 || src[i+2] == 0xA9):
			line++
			start = i + 3
		}
	}
	return line, offset - start + 1
}

// File.Position (used for run-time error locations and stack traces).
func VerifH_C19_file_position() {
	n := 1 + verifChoose(verifParam("maxlen", 3))
	src := verifNondetString(n)
	off := verifChoose(n)
	base := 1 + verifChoose(3)
	f := NewFile("f.js", src, base)
	pos := f.Position(Idx(base + off))
	verifCover("reached")
	verifAssert(pos != nil, "position inside the file is reported")
	if pos == nil {
		return
	}
	line, col := refLineCol(src, off)
	verifAssert(pos.Offset == off, "offset")
	verifAssertK(pos.Line == line, "C19-file-position-only-lf", line != 1+countLF(src[:off]), "File.Position: line")
	verifAssertK(pos.Column == col, "C19-file-position-only-lf", line != 1+countLF(src[:off]) || hasNonLF(src[:off]), "File.Position: column")
}

func countLF(s string) int {
	n := 0
	for i := 0; i < len(s); i++ {
		if s[i] == '\n' {
			n++
		}
	}
	return n
}

func hasNonLF(s string) bool {
	for i := 0; i < len(s); i++ {
		if s[i] == '\r' || s[i] == 0xE2 {
			return true
		}
	}
	return false
}

// FileSet.Position(idx) must be File.Position of the owning file.
func VerifH_C19_fileset_position() {
	n1 := 1 + verifChoose(2)
	n2 := 1 + verifChoose(2)
	s1 := verifNondetString(n1)
	s2 := verifNondetString(n2)
	fs := &FileSet{}
	b1 := fs.AddFile("a.js", s1)
	b2 := fs.AddFile("b.js", s2)
	which := verifChoose(2)
	var idx Idx
	var want *Position
	if which == 0 {
		off := verifChoose(n1)
		idx = Idx(b1 + off)
		want = fs.files[0].Position(idx)
	} else {
		off := verifChoose(n2)
		idx = Idx(b2 + off)
		want = fs.files[1].Position(idx)
	}
	got := fs.Position(idx)
	verifCover("reached")
	verifAssert(want != nil, "File.Position defined inside the file")
	verifAssert(got != nil, "FileSet.Position defined inside a file of the set")
	if got != nil && want != nil {
		verifAssert(got.Filename == want.Filename && got.Offset == want.Offset && got.Line == want.Line && got.Column == want.Column, "FileSet.Position == File.Position of the owning file")
	}
}
