//go:build verif

package parser

import (
	"github.com/robertkrimen/otto/ast"
	"github.com/robertkrimen/otto/file"
)

// verifVisitor records what ast.Walk delivers.
type verifVisitor struct {
	stack    []ast.Node
	seen     map[ast.Node]int
	srcLen   int
	nilNode  bool
	unbal    bool
	badSpan  bool
	idxPanic bool
	outside  bool
	nodes    int
}

func (v *verifVisitor) Enter(n ast.Node) ast.Visitor {
	v.nodes++
	if verifIsNil(n) {
		v.nilNode = true
		v.stack = append(v.stack, n)
		return v
	}
	v.seen[n]++
	var i0, i1 file.Idx
	kind, _ := verifCatch(func() {
		i0 = n.Idx0()
		i1 = n.Idx1()
	})
	if kind != verifNormal {
		v.idxPanic = true
	} else {
		if !(1 <= int(i0) && i0 <= i1 && int(i1) <= v.srcLen+1) {
			v.badSpan = true
		}
		if len(v.stack) > 0 {
			parent := v.stack[len(v.stack)-1]
			if !verifIsNil(parent) {
				var p0, p1 file.Idx
				k2, _ := verifCatch(func() {
					p0 = parent.Idx0()
					p1 = parent.Idx1()
				})
				if k2 == verifNormal && !(p0 <= i0 && i1 <= p1) {
					v.outside = true
				}
			}
		}
	}
	v.stack = append(v.stack, n)
	return v
}

func (v *verifVisitor) Exit(n ast.Node) {
	if len(v.stack) == 0 || v.stack[len(v.stack)-1] != n {
		v.unbal = true
		return
	}
	v.stack = v.stack[:len(v.stack)-1]
}

// verifCheckParse is the body shared by the C04 harnesses: parse src, then
// check totality, error positions and tree well-formedness.
func verifCheckParse(src string, spans bool) {
	var prog *ast.Program
	var err error
	kind, _ := verifCatch(func() {
		p := newParser("", src, 1, nil)
		p.mode = Mode(verifParam("mode", 0)) // 0, IgnoreRegExpErrors (1), StoreComments (2) or both
		prog, err = p.parse()
	})
	verifCover("parsed")
	verifAssert(kind == verifNormal, "parser returns without a Go panic")
	if kind != verifNormal {
		return
	}
	if err != nil {
		verifCover("rejected")
		if el, ok := err.(*ErrorList); ok {
			for _, e := range *el {
				verifAssert(e.Position.Line >= 1, "error position line >= 1")
				verifAssert(e.Position.Column >= 1, "error position column >= 1")
				verifAssert(e.Position.Offset >= 0 && e.Position.Offset <= len(src), "error offset inside the input")
			}
		}
	} else {
		verifCover("accepted")
	}
	if prog == nil {
		return
	}
	v := &verifVisitor{seen: map[ast.Node]int{}, srcLen: len(src)}
	k2, _ := verifCatch(func() { ast.Walk(v, prog) })
	verifAssert(k2 == verifNormal, "ast.Walk does not panic")
	if err != nil {
		return // the remaining claims are about accepted trees
	}
	verifAssert(!v.nilNode, "ast.Walk never hands a nil node to the visitor")
	verifAssert(!v.unbal && len(v.stack) == 0, "Enter/Exit balanced")
	once := true
	for _, c := range v.seen {
		if c != 1 {
			once = false
		}
	}
	verifAssert(once, "each node entered exactly once")
	if cnt := verifCountNodes(prog); cnt >= 0 {
		verifAssert(v.nodes == cnt, "ast.Walk delivers every node of the tree (count equals an independent traversal)")
	}
	if spans {
		verifAssert(!v.idxPanic, "Idx0/Idx1 do not panic on an accepted tree")
		verifAssert(!v.badSpan, "node span within the file")
		verifAssert(!v.outside, "node span within its parent's span")
	}
}

func VerifH_C04_parse_bytes() {
	n := verifChoose(verifParam("maxlen", 2) + 1)
	src := verifNondetString(n)
	verifCheckParse(src, true)
}

// verifAlphabet: the bytes allowed in template holes (a table lookup, so the
// restriction is one term, not a fork per byte).
var verifAlphabet = func() (t [256]bool) {
	for _, c := range []byte(" \n;:,.(){}[]a1'\"/=+-!?<&|*") {
		t[c] = true
	}
	return
}()

var verifTemplates = []struct{ pre, suf string }{
	{"for(", ");"},
	{"switch(a){case 1", "}"},
	{"(function", "{})"},
	{"try{}finally", ""},
	{"try{}catch(a)", ""},
	{"a=", ";"},
	{"if(a)", ""},
	{"var a", ""},
	{"({", "})"},
	{"a", "b"},
	{"do;while(a)", ""},
	{"a:", "break a"},
	{"x=[", "]"},
	{"new a", ""},
	{"function f(", "){}"},
	{"with(a)", ""},
	{"x={set v(", "){}}"},
	{"x={get v(){", "}}"},
	{"switch(a){default:", "}"},
}

// Statement templates with symbolic holes: gets the byte-level exploration
// past the length bound of VerifH_C04_parse_bytes.
func VerifH_C04_parse_templates() {
	t := verifTemplates[verifChoose(len(verifTemplates))]
	n := verifChoose(verifParam("holes", 2) + 1)
	hole := verifNondetString(n)
	for i := 0; i < n; i++ {
		verifAssume(verifAlphabet[hole[i]])
	}
	verifCheckParse(t.pre+hole+t.suf, true)
}
