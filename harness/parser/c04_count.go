//go:build verif

package parser

import "github.com/robertkrimen/otto/ast"

// verifCountNodes counts the nodes of a tree by its own recursion over every
// node type (independent of ast.Walk), so that nodes Walk fails to deliver are
// noticed. Returns -1 for a node type it does not know.
func verifCountNodes(n ast.Node) int {
	if verifIsNil(n) {
		return 0
	}
	sum := 1
	add := func(c ast.Node) bool {
		k := verifCountNodes(c)
		if k < 0 {
			return false
		}
		sum += k
		return true
	}
	ok := true
	switch x := n.(type) {
	case *ast.ArrayLiteral:
		for _, e := range x.Value {
			ok = ok && add(e)
		}
	case *ast.AssignExpression:
		ok = add(x.Left) && add(x.Right)
	case *ast.BadExpression, *ast.BadStatement, *ast.BooleanLiteral, *ast.DebuggerStatement, *ast.EmptyExpression, *ast.EmptyStatement,
		*ast.Identifier, *ast.NullLiteral, *ast.NumberLiteral, *ast.RegExpLiteral, *ast.StringLiteral, *ast.ThisExpression:
	case *ast.BinaryExpression:
		ok = add(x.Left) && add(x.Right)
	case *ast.BlockStatement:
		for _, s := range x.List {
			ok = ok && add(s)
		}
	case *ast.BracketExpression:
		ok = add(x.Left) && add(x.Member)
	case *ast.BranchStatement:
		ok = add(x.Label)
	case *ast.CallExpression:
		ok = add(x.Callee)
		for _, a := range x.ArgumentList {
			ok = ok && add(a)
		}
	case *ast.CaseStatement:
		ok = add(x.Test)
		for _, s := range x.Consequent {
			ok = ok && add(s)
		}
	case *ast.CatchStatement:
		ok = add(x.Parameter) && add(x.Body)
	case *ast.ConditionalExpression:
		ok = add(x.Test) && add(x.Consequent) && add(x.Alternate)
	case *ast.DoWhileStatement:
		ok = add(x.Test) && add(x.Body)
	case *ast.DotExpression:
		ok = add(x.Left) && add(x.Identifier)
	case *ast.ExpressionStatement:
		ok = add(x.Expression)
	case *ast.ForInStatement:
		ok = add(x.Into) && add(x.Source) && add(x.Body)
	case *ast.ForStatement:
		ok = add(x.Initializer) && add(x.Update) && add(x.Test) && add(x.Body)
	case *ast.FunctionLiteral:
		ok = add(x.Name)
		if x.ParameterList != nil {
			for _, p := range x.ParameterList.List {
				ok = ok && add(p)
			}
		}
		ok = ok && add(x.Body)
	case *ast.FunctionStatement:
		ok = add(x.Function)
	case *ast.IfStatement:
		ok = add(x.Test) && add(x.Consequent) && add(x.Alternate)
	case *ast.LabelledStatement:
		ok = add(x.Label) && add(x.Statement)
	case *ast.NewExpression:
		ok = add(x.Callee)
		for _, a := range x.ArgumentList {
			ok = ok && add(a)
		}
	case *ast.ObjectLiteral:
		for _, p := range x.Value {
			ok = ok && add(p.Value)
		}
	case *ast.Program:
		for _, s := range x.Body {
			ok = ok && add(s)
		}
	case *ast.ReturnStatement:
		ok = add(x.Argument)
	case *ast.SequenceExpression:
		for _, e := range x.Sequence {
			ok = ok && add(e)
		}
	case *ast.SwitchStatement:
		ok = add(x.Discriminant)
		for _, c := range x.Body {
			ok = ok && add(c)
		}
	case *ast.ThrowStatement:
		ok = add(x.Argument)
	case *ast.TryStatement:
		ok = add(x.Body) && add(x.Catch) && add(x.Finally)
	case *ast.UnaryExpression:
		ok = add(x.Operand)
	case *ast.VariableExpression:
		ok = add(x.Initializer)
	case *ast.VariableStatement:
		for _, e := range x.List {
			ok = ok && add(e)
		}
	case *ast.WhileStatement:
		ok = add(x.Test) && add(x.Body)
	case *ast.WithStatement:
		ok = add(x.Object) && add(x.Body)
	default:
		return -1
	}
	if !ok {
		return -1
	}
	return sum
}
