//go:build verif

package parser

import "github.com/robertkrimen/otto/file"

// refLineCol: line = 1 + number of ES5 line terminators (7.3: LF, CR, LS, PS;
// CR LF counts once) in src[:offset]; column = bytes since the last one, + 1.
func refLineCol(src string, offset int) (line, col int) {
	line = 1
	start := 0
	for i := 0; i < offset; i++ {
		c := src[i]
		switch {
		case c == '\r':
			line++
			start = i + 1
		case c == '\n':
			if i == 0 || src[i-1] != '\r' {
				line++
			}
			start = i + 1
		case c == 0xE2 && i+2 < offset && src[i+1] == 0x80 && (src[i+2] == 0xA8 || src[i+2] == 0xA9):
			line++
			start = i + 3
		}
	}
	return line, offset - start + 1
}

func VerifH_C19_parser_position() {
	n := verifChoose(verifParam("maxlen", 3) + 1)
	src := verifNondetString(n)
	off := verifChoose(n + 1)
	p := newParser("", src, 1, nil)
	pos := p.position(file.Idx(1 + off))
	line, col := refLineCol(src, off)
	verifCover("reached")
	verifAssert(pos.Line == line, "parser position: line")
	verifAssert(pos.Column == col, "parser position: column")
}
