//go:build verif

package parser

import "github.com/robertkrimen/otto/ast"

// verifSep: a symbolic separator of 1 or 3 bytes constrained to be ES5 white
// space or a line terminator; reports whether it contains a line terminator.
func verifSep() (string, bool) {
	if verifChoose(2) == 0 {
		b := verifNondetString(1)
		verifAssume(b[0] == ' ' || b[0] == '\t' || b[0] == '\n' || b[0] == '\r' || b[0] == 0x0B || b[0] == 0x0C)
		return b, b[0] == '\n' || b[0] == '\r'
	}
	b := verifNondetString(3)
	verifAssume(b[0] == 0xE2 && b[1] == 0x80 && (b[2] == 0xA8 || b[2] == 0xA9 || b[2] == 0x80))
	return b, b[2] != 0x80 // U+2028 / U+2029 are line terminators, U+2000 is white space
}

var verifInvalidPrograms = []struct{ pre, suf string }{
	{"break", ";"},
	{"continue", ";"},
	{"return", "1"},
	{"a:", "a: ;"},
	{"x: while (1) { break", "y }"},
	{"1", "= a"},
	{"1", "+= a"},
	{"a + b", "= c"},
	{"try {}", ""},
	{"var", "class = 1"},
	{"var", "enum = 1"},
	{"function f() {} f(", ""},
	{"a ? b, c :", "d"},
	{"({ a:", "})"},
	{"if (a)", ""},
	{"for (var i", "i < 1) {}"},
	{"do ; while", ""},
	{"switch (a) { case 1:", "default: default: }"},
	{"with", "{}"},
	{"new", ";"},
	{"abc: { continue", "abc; }"},
	{"abc: switch (x) { case 1: continue", "abc; }"},
	{"abc: if (x) break", "def;"},
	{"abc: while (x) { (function () { break", "abc; })() }"},
	{"abc: while (x) { (function () { continue", "abc; })() }"},
	{"while (x) { (function () { break", "; })() }"},
	{"switch (x) { case 1: continue", "; }"},
	{"(function () { return", "1 })(); return"},
	{"abc: abc:", ";"},
	{"var a = {get p(x) { return", "1 }}"},
	{"var a = {set p() {", "}}"},
	{"try {} catch", "{}"},
	{"throw", ""},
	{"a++", "++"},
	{"for (var a, b in", "c) ;"},
}

// C04-H3: programs that violate ES5 syntax or its early errors are rejected,
// whatever white space or line terminator separates the two parts.
func VerifH_C04_early_errors() {
	p := verifInvalidPrograms[verifChoose(len(verifInvalidPrograms))]
	sep, lt := verifSep()
	if p.pre == "x: while (1) { break" {
		verifAssume(!lt) // with a line terminator `break` ends there (ASI) and the program is valid
	}
	src := p.pre + sep + p.suf
	var err error
	kind, _ := verifCatch(func() { _, err = newParser("", src, 1, nil).parse() })
	verifCover("reached")
	verifAssert(kind == verifNormal, "no panic")
	verifAssertK(err != nil, "C04-setter-parameter-count", p.pre == "var a = {set p() {", "an invalid program is rejected")
}

var verifStatementTails = []string{"a", "x = .5", "x = 5.", "x = 0x1f", "x = 1e3", "x = 010", "x = 's'", "x = /r/g", "(a)", "a[0]", "a++", "a--", "this", "null", "true", "x = {}", "x = []", "x = function(){}", "a.b", "a()"}

var verifForHeaders = []struct {
	init string
	ok   bool
}{
	{"var a = b in c", false}, {"a = b in c", false}, {"var a = b instanceof c", true}, {"a = b instanceof c ? 1 : 0", true},
	{"var a = b < c", true}, {"var a = (b in c)", true}, {"var a = [b in c]", true}, {"var a = f(b in c)", true},
	{"var a = b ? c : d in e", false}, {"var a = b, c = d in e", false}, {"var a = b && c in d", false}, {"var a = b, c = d instanceof e", true},
	{"a = function () { return b in c }", true}, {"var a = {p: b in c}", true}, {"var a = b[c in d]", true},
}

// C03-H3: automatic semicolon insertion and restricted productions (7.9.1):
// a line terminator after return / before ++ ends the statement, white space
// does not.
func VerifH_C03_asi() {
	sep, lt := verifSep()
	verifCover("reached")
	switch verifChoose(5) {
	case 3: // <statement ending in any kind of token><sep>b: two statements only across a line terminator
		first := verifStatementTails[verifChoose(len(verifStatementTails))]
		prog, err := newParser("", first+sep+"b", 1, nil).parse()
		if lt {
			verifAssert(err == nil && prog != nil && len(prog.Body) == 2, "7.9.1: a line terminator after any statement-ending token inserts a semicolon: "+first)
		} else {
			verifAssert(err != nil, "7.9.1: white space alone does not separate two statements: "+first)
		}
	case 4: // the NoIn grammar of for headers (12.6.3): only a bare `in` is excluded
		h := verifForHeaders[verifChoose(len(verifForHeaders))]
		_, err := newParser("", "for ("+h.init+";"+sep+";) ;", 1, nil).parse()
		if h.ok {
			verifAssert(err == nil, "12.6.3: accepted for-header initialiser: "+h.init)
		} else {
			verifAssert(err != nil, "12.6.3: `in` is not allowed bare in a for-header initialiser: "+h.init)
		}
	case 0: // function f(){ return<sep>a }
		prog, err := newParser("", "function f(){ return"+sep+"a }", 1, nil).parse()
		verifAssert(err == nil && prog != nil && len(prog.Body) == 1, "parses")
		if err != nil || prog == nil || len(prog.Body) != 1 {
			return
		}
		fs, ok := prog.Body[0].(*ast.FunctionStatement)
		if !ok {
			verifAssert(false, "function statement")
			return
		}
		body := fs.Function.Body.(*ast.BlockStatement).List
		if lt {
			verifAssert(len(body) == 2, "7.9.1: a line terminator after return ends the statement")
			if len(body) == 2 {
				r, isRet := body[0].(*ast.ReturnStatement)
				verifAssert(isRet && r.Argument == nil, "return without argument")
			}
		} else {
			verifAssert(len(body) == 1, "white space does not end the return statement")
			if len(body) == 1 {
				r, isRet := body[0].(*ast.ReturnStatement)
				verifAssert(isRet && verifIsIdent(r.Argument, "a"), "return a")
			}
		}
	case 1: // a<sep>++<sep>b  ==>  with a line terminator: a; ++b
		prog, err := newParser("", "a"+sep+"++"+sep+"b", 1, nil).parse()
		if lt {
			verifAssert(err == nil && prog != nil && len(prog.Body) == 2, "7.9.1: postfix ++ may not follow a line terminator: a; ++b")
		} else {
			verifAssert(err != nil, "a ++ b on one line is a syntax error")
		}
	default: // a<sep>b: two statements only across a line terminator
		prog, err := newParser("", "a"+sep+"b", 1, nil).parse()
		if lt {
			verifAssert(err == nil && prog != nil && len(prog.Body) == 2, "7.9.1: a line terminator separates two expression statements")
		} else {
			verifAssert(err != nil, "a b on one line is a syntax error")
		}
	}
}
