//go:build verif

package parser

import "github.com/robertkrimen/otto/ast"

// verifSep: a symbolic separator of 1 or 3 bytes constrained to be ES5 white
// space or a line terminator; reports whether it contains a line terminator.
func verifSep() (string, bool) {
	if verifChoose(2) == 0 {
		b := verifNondetString(1)
		verifAssume(b[0] == ' ' || b[0] == '\t' || b[0] == '\n' || b[0] == '\r' || b[0] == 0x0B || b[0] == 0x0C)
		return b, b[0] == '\n' || b[0] == '\r'
	}
	b := verifNondetString(3)
	verifAssume(b[0] == 0xE2 && b[1] == 0x80 && (b[2] == 0xA8 || b[2] == 0xA9 || b[2] == 0x80))
	return b, b[2] != 0x80 // U+2028 / U+2029 are line terminators, U+2000 is white space
}

var verifInvalidPrograms = []struct{ pre, suf string }{
	{"break", ";"},
	{"continue", ";"},
	{"return", "1"},
	{"a:", "a: ;"},
	{"x: while (1) { break", "y }"},
	{"1", "= a"},
	{"1", "+= a"},
	{"a + b", "= c"},
	{"try {}", ""},
	{"var", "class = 1"},
	{"var", "enum = 1"},
	{"function f() {} f(", ""},
	{"a ? b, c :", "d"},
	{"({ a:", "})"},
	{"if (a)", ""},
	{"for (var i", "i < 1) {}"},
	{"do ; while", ""},
	{"switch (a) { case 1:", "default: default: }"},
	{"with", "{}"},
	{"new", ";"},
}

// C04-H3: programs that violate ES5 syntax or its early errors are rejected,
// whatever white space or line terminator separates the two parts.
func VerifH_C04_early_errors() {
	p := verifInvalidPrograms[verifChoose(len(verifInvalidPrograms))]
	sep, lt := verifSep()
	if p.pre == "x: while (1) { break" {
		verifAssume(!lt) // with a line terminator `break` ends there (ASI) and the program is valid
	}
	src := p.pre + sep + p.suf
	var err error
	kind, _ := verifCatch(func() { _, err = newParser("", src, 1, nil).parse() })
	verifCover("reached")
	verifAssert(kind == verifNormal, "no panic")
	verifAssert(err != nil, "an invalid program is rejected")
}

// C03-H3: automatic semicolon insertion and restricted productions (7.9.1):
// a line terminator after return / before ++ ends the statement, white space
// does not.
func VerifH_C03_asi() {
	sep, lt := verifSep()
	verifCover("reached")
	switch verifChoose(3) {
	case 0: // function f(){ return<sep>a }
		prog, err := newParser("", "function f(){ return"+sep+"a }", 1, nil).parse()
		verifAssert(err == nil && prog != nil && len(prog.Body) == 1, "parses")
		if err != nil || prog == nil || len(prog.Body) != 1 {
			return
		}
		fs, ok := prog.Body[0].(*ast.FunctionStatement)
		if !ok {
			verifAssert(false, "function statement")
			return
		}
		body := fs.Function.Body.(*ast.BlockStatement).List
		if lt {
			verifAssert(len(body) == 2, "7.9.1: a line terminator after return ends the statement")
			if len(body) == 2 {
				r, isRet := body[0].(*ast.ReturnStatement)
				verifAssert(isRet && r.Argument == nil, "return without argument")
			}
		} else {
			verifAssert(len(body) == 1, "white space does not end the return statement")
			if len(body) == 1 {
				r, isRet := body[0].(*ast.ReturnStatement)
				verifAssert(isRet && verifIsIdent(r.Argument, "a"), "return a")
			}
		}
	case 1: // a<sep>++<sep>b  ==>  with a line terminator: a; ++b
		prog, err := newParser("", "a"+sep+"++"+sep+"b", 1, nil).parse()
		if lt {
			verifAssert(err == nil && prog != nil && len(prog.Body) == 2, "7.9.1: postfix ++ may not follow a line terminator: a; ++b")
		} else {
			verifAssert(err != nil, "a ++ b on one line is a syntax error")
		}
	default: // a<sep>b: two statements only across a line terminator
		prog, err := newParser("", "a"+sep+"b", 1, nil).parse()
		if lt {
			verifAssert(err == nil && prog != nil && len(prog.Body) == 2, "7.9.1: a line terminator separates two expression statements")
		} else {
			verifAssert(err != nil, "a b on one line is a syntax error")
		}
	}
}
