//go:build verif

package parser

import "github.com/robertkrimen/otto/ast"

var verifNumAlphabet = func() (t [256]bool) {
	for _, c := range []byte("0123456789abcdefABCDEFxX") {
		t[c] = true
	}
	return
}()

func verifHexDigit(c byte) int {
	switch {
	case '0' <= c && c <= '9':
		return int(c - '0')
	case 'a' <= c && c <= 'f':
		return int(c-'a') + 10
	case 'A' <= c && c <= 'F':
		return int(c-'A') + 10
	}
	return -1
}

// refIntegerLiteral: value of an ES5 7.8.3 integer literal (decimal without a
// leading zero, hex, or B.1.1 legacy octal); ok=false for any other text.
func refIntegerLiteral(s string) (ok bool, v int64) {
	if len(s) == 0 {
		return false, 0
	}
	if len(s) > 2 && s[0] == '0' && (s[1] == 'x' || s[1] == 'X') {
		for i := 2; i < len(s); i++ {
			d := verifHexDigit(s[i])
			if d < 0 {
				return false, 0
			}
			v = v*16 + int64(d)
		}
		return true, v
	}
	if s[0] == '0' && len(s) > 1 {
		for i := 1; i < len(s); i++ {
			if s[i] < '0' || s[i] > '7' {
				return false, 0
			}
			v = v*8 + int64(s[i]-'0')
		}
		return true, v
	}
	for i := 0; i < len(s); i++ {
		if s[i] < '0' || s[i] > '9' {
			return false, 0
		}
		v = v*10 + int64(s[i]-'0')
	}
	return true, v
}

func verifLiteralOf(src string) (ast.Expression, error) {
	prog, err := newParser("", src, 1, nil).parse()
	if err != nil || prog == nil || len(prog.Body) != 1 {
		return nil, err
	}
	es, ok := prog.Body[0].(*ast.ExpressionStatement)
	if !ok {
		return nil, nil
	}
	return es.Expression, nil
}

// C03-H4: integer numeric literals (decimal, hex, legacy octal) carry the ES5 value.
func VerifH_C03_numeric_literals() {
	n := 1 + verifChoose(verifParam("maxlen", 4))
	lit := verifNondetString(n)
	for i := 0; i < n; i++ {
		verifAssume(verifNumAlphabet[lit[i]])
	}
	ok, want := refIntegerLiteral(lit)
	verifAssume(ok)
	e, err := verifLiteralOf(lit + ";")
	verifCover("reached")
	verifAssert(err == nil && e != nil, "an integer literal is accepted")
	if e == nil {
		return
	}
	nl, isNum := e.(*ast.NumberLiteral)
	verifAssert(isNum, "it is a NumberLiteral")
	if !isNum {
		return
	}
	switch v := nl.Value.(type) {
	case int64:
		verifAssert(v == want, "ES5 7.8.3 / B.1.1 value of the integer literal")
	case float64:
		verifAssert(v == float64(want), "ES5 7.8.3 / B.1.1 value of the integer literal")
	default:
		verifAssert(false, "numeric literal value is a number")
	}
}

// C03-H5: string literal escapes (ES5 7.8.4, B.1.2) carry the right value.
func VerifH_C03_string_escapes() {
	var body string
	var want []rune
	switch verifChoose(5) {
	case 0: // single-character escape or identity escape
		c := verifNondetString(1)
		verifAssume(c[0] < 0x80 && c[0] != 'x' && c[0] != 'u' && !(c[0] >= '0' && c[0] <= '9') && c[0] != '\n' && c[0] != '\r' && c[0] != '\'')
		body = "\\" + c
		switch c[0] {
		case 'b':
			want = []rune{8}
		case 'f':
			want = []rune{12}
		case 'n':
			want = []rune{10}
		case 'r':
			want = []rune{13}
		case 't':
			want = []rune{9}
		case 'v':
			want = []rune{11}
		default:
			want = []rune{rune(c[0])}
		}
	case 1: // \xHH
		h := verifNondetString(2)
		verifAssume(verifHexDigit(h[0]) >= 0 && verifHexDigit(h[1]) >= 0)
		body = "\\x" + h
		want = []rune{rune(verifHexDigit(h[0])*16 + verifHexDigit(h[1]))}
	case 2: // \uHHHH (non-surrogate)
		h := verifNondetString(4)
		verifAssume(verifHexDigit(h[0]) >= 0 && verifHexDigit(h[1]) >= 0 && verifHexDigit(h[2]) >= 0 && verifHexDigit(h[3]) >= 0)
		cp := verifHexDigit(h[0])<<12 | verifHexDigit(h[1])<<8 | verifHexDigit(h[2])<<4 | verifHexDigit(h[3])
		verifAssume(cp < 0xD800 || cp > 0xDFFF)
		body = "\\u" + h
		want = []rune{rune(cp)}
	case 3: // line continuation
		body = "a\\\nb"
		want = []rune{'a', 'b'}
	default: // \0 and legacy octal \d, \dd
		d := verifNondetString(1)
		verifAssume(d[0] >= '0' && d[0] <= '7')
		e := verifNondetString(1)
		verifAssume(e[0] < 0x80 && e[0] != '\\' && e[0] != '\'' && e[0] != '\n' && e[0] != '\r')
		body = "\\" + d + e
		if e[0] >= '0' && e[0] <= '7' {
			want = []rune{rune(int(d[0]-'0')*8 + int(e[0]-'0'))}
		} else {
			want = []rune{rune(d[0] - '0'), rune(e[0])}
		}
	}
	e, err := verifLiteralOf("'" + body + "';")
	verifCover("reached")
	verifAssert(err == nil && e != nil, "a string literal with a valid escape is accepted")
	if e == nil {
		return
	}
	sl, ok := e.(*ast.StringLiteral)
	verifAssert(ok, "it is a StringLiteral")
	if !ok {
		return
	}
	got := []rune(sl.Value)
	same := len(got) == len(want)
	if same {
		for i := range got {
			if got[i] != want[i] {
				same = false
			}
		}
	}
	verifAssert(same, "ES5 7.8.4 / B.1.2 value of the string literal")
}
