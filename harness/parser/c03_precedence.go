//go:build verif

package parser

import "github.com/robertkrimen/otto/ast"

var verifOpAlphabet = func() (t [256]bool) {
	for _, c := range []byte("+-*/%<>=!&|^ ") {
		t[c] = true
	}
	return
}()

// verifOpInfo: ES5 11.5-11.13 binary/assignment operators: precedence (higher
// binds tighter), right associativity, 0 if s is not such an operator.
func verifOpInfo(s string) (prec int, right bool) {
	switch s {
	case "*", "/", "%":
		return 14, false
	case "+", "-":
		return 13, false
	case "<<", ">>", ">>>":
		return 12, false
	case "<", ">", "<=", ">=":
		return 11, false
	case "==", "!=", "===", "!==":
		return 10, false
	case "&":
		return 9, false
	case "^":
		return 8, false
	case "|":
		return 7, false
	case "&&":
		return 6, false
	case "||":
		return 5, false
	case "=", "+=", "-=", "*=", "/=", "%=", "&=", "|=", "^=", "<<=", ">>=":
		return 3, true
	}
	return 0, false
}

// verifOpSlot: 3 symbolic bytes over the punctuator alphabet, operator
// characters first, then padding spaces.
func verifOpSlot() string {
	b := verifNondetString(3)
	verifAssume(verifOpAlphabet[b[0]] && verifOpAlphabet[b[1]] && verifOpAlphabet[b[2]])
	verifAssume(b[0] != ' ' && (b[1] != ' ' || b[2] == ' '))
	n := 3
	if b[2] == ' ' {
		n = 2
		if b[1] == ' ' {
			n = 1
		}
	}
	return b[:n]
}

func verifRootOp(e ast.Expression) (string, ast.Expression, ast.Expression) {
	switch x := e.(type) {
	case *ast.BinaryExpression:
		return x.Operator.String(), x.Left, x.Right
	case *ast.AssignExpression:
		op := x.Operator.String()
		if op != "=" {
			op += "="
		}
		return op, x.Left, x.Right
	}
	return "", nil, nil
}

func verifIsIdent(e ast.Expression, name string) bool {
	id, ok := e.(*ast.Identifier)
	return ok && id.Name == name
}

// C03-H1: precedence and associativity of every pair of binary / assignment
// operators, the operator characters being symbolic bytes the lexer has to
// recognise.
func VerifH_C03_operator_pairs() {
	op1, op2 := verifOpSlot(), verifOpSlot()
	p1, r1 := verifOpInfo(op1)
	p2, _ := verifOpInfo(op2)
	verifAssume(p1 > 0 && p2 > 0)
	// "a + b = c" is an invalid assignment target: not part of this claim
	verifAssume(!(p2 == 3 && p1 != 3))
	src := "a " + op1 + " b " + op2 + " c"
	prog, err := newParser("", src, 1, nil).parse()
	verifCover("parsed")
	verifAssert(err == nil && prog != nil && len(prog.Body) == 1, "a valid operator chain parses as one statement")
	if err != nil || prog == nil || len(prog.Body) != 1 {
		return
	}
	es, ok := prog.Body[0].(*ast.ExpressionStatement)
	verifAssert(ok, "expression statement")
	if !ok {
		return
	}
	root, l, r := verifRootOp(es.Expression)
	leftNested := p1 > p2 || (p1 == p2 && !r1)
	if leftNested {
		lop, ll, lr := verifRootOp(l)
		verifAssert(root == op2 && lop == op1 && verifIsIdent(ll, "a") && verifIsIdent(lr, "b") && verifIsIdent(r, "c"), "ES5 11: (a op1 b) op2 c")
	} else {
		rop, rl, rr := verifRootOp(r)
		verifAssert(root == op1 && rop == op2 && verifIsIdent(l, "a") && verifIsIdent(rl, "b") && verifIsIdent(rr, "c"), "ES5 11: a op1 (b op2 c)")
	}
}
