//go:build verif

package parser

func verifIsHex(c byte) bool {
	return '0' <= c && c <= '9' || 'a' <= c && c <= 'f' || 'A' <= c && c <= 'F'
}

func verifHexVal(c byte) int {
	switch {
	case '0' <= c && c <= '9':
		return int(c - '0')
	case 'a' <= c && c <= 'f':
		return int(c-'a') + 10
	}
	return int(c-'A') + 10
}

// TransformRegExp is total on arbitrary bytes.
func VerifH_C10_transform_total() {
	n := verifChoose(verifParam("maxlen", 3) + 1)
	pat := verifNondetString(n)
	var out string
	var err error
	kind, _ := verifCatch(func() { out, err = TransformRegExp(pat) })
	verifCover("reached")
	verifAssert(kind == verifNormal, "TransformRegExp returns without a Go panic")
	if kind == verifNormal && err == nil && n > 0 {
		verifCover("accepted")
		verifAssert(len(out) > 0, "an accepted non-empty pattern has a non-empty translation")
	}
}

// Escape values, and the rule that unsupported constructs are flagged.
func VerifH_C10_transform_escapes() {
	switch verifChoose(11) {
	case 9: // a class inside a group may contain any punctuator, also ( and )
		b := verifNondetString(1)
		verifAssume(b[0] >= 0x20 && b[0] < 0x7f && b[0] != ']' && b[0] != '\\' && b[0] != '^' && b[0] != '[')
		out, err := TransformRegExp("(a[" + b + "]b)+")
		verifAssert(err == nil && out == "(a["+b+"]b)+", "a character class nested in a group is copied through, whatever single character it holds")
		out2, err2 := TransformRegExp("(?:[" + b + "])|((x)[" + b + "])")
		verifAssert(err2 == nil && out2 == "(?:["+b+"])|((x)["+b+"])", "classes inside non-capturing and nested groups")
	case 10: // ordinary characters and quantifiers pass through unchanged
		b := verifNondetString(1)
		verifAssume('a' <= b[0] && b[0] <= 'z' || 'A' <= b[0] && b[0] <= 'Z' || '0' <= b[0] && b[0] <= '9' || b[0] == ' ' || b[0] == '-' || b[0] == ',')
		q := []string{"", "*", "+", "?", "{2}", "{1,3}", "*?", "+?"}[verifChoose(8)]
		out, err := TransformRegExp("^" + b + q + "|(" + b + ")$")
		verifAssert(err == nil && out == "^"+b+q+"|("+b+")$", "literals, quantifiers, anchors, alternation and groups are copied through")
	case 0: // \xHH
		h := verifNondetString(2)
		verifAssume(verifIsHex(h[0]) && verifIsHex(h[1]))
		out, err := TransformRegExp("\\x" + h)
		verifAssert(err == nil && out == "\\x"+h, "\\xHH denotes code unit HH")
	case 1: // \uHHHH
		h := verifNondetString(4)
		verifAssume(verifIsHex(h[0]) && verifIsHex(h[1]) && verifIsHex(h[2]) && verifIsHex(h[3]))
		out, err := TransformRegExp("\\u" + h)
		verifAssert(err == nil && out == "\\x{"+h+"}", "\\uHHHH denotes code unit HHHH")
	case 2: // \cX
		c := verifNondetString(1)
		verifAssume('a' <= c[0] && c[0] <= 'z' || 'A' <= c[0] && c[0] <= 'Z')
		out, err := TransformRegExp("\\c" + c)
		ok := err == nil && len(out) == 4 && out[0] == '\\' && out[1] == 'x' && verifIsHex(out[2]) && verifIsHex(out[3])
		verifAssert(ok, "\\cX is emitted as \\xHH")
		if ok {
			verifAssert(verifHexVal(out[2])*16+verifHexVal(out[3]) == int(c[0])%32, "\\cX denotes X mod 32 (15.10.2.10)")
		}
	case 3: // look-ahead
		b := verifNondetString(2)
		verifAssume(b[0] == '=' || b[0] == '!')
		verifAssume(b[1] != ')' && b[1] != '(' && b[1] != '[' && b[1] != '\\' && b[1] < 0x80)
		out, err := TransformRegExp("(?" + b + ")")
		verifAssert(err != nil, "look-ahead is rejected, never silently translated")
		_ = out
	case 4: // back-reference \1..\9
		d := verifNondetString(1)
		verifAssume('1' <= d[0] && d[0] <= '9')
		_, err := TransformRegExp("(a)\\" + d)
		verifAssert(err != nil, "back-reference is rejected, never silently translated")
	case 5: // class escape \b is backspace
		out, err := TransformRegExp("[\\b]")
		verifAssert(err == nil && out == "[\\x08]", "\\b inside a class is U+0008")
	case 6: // unbalanced )
		b := verifNondetString(1)
		verifAssume(b[0] != '(' && b[0] != '[' && b[0] != '\\' && b[0] < 0x80)
		out, err := TransformRegExp(b + ")")
		verifAssert(err != nil && out == "", "unmatched ) is invalid")
	case 7: // unterminated group / class
		b := verifNondetString(1)
		verifAssume(b[0] != ')' && b[0] != ']' && b[0] != '\\' && b[0] != '(' && b[0] != '[' && b[0] < 0x80)
		o1, e1 := TransformRegExp("(" + b)
		o2, e2 := TransformRegExp("[" + b)
		verifAssert(e1 != nil && o1 == "", "unterminated group is invalid")
		verifAssert(e2 != nil && o2 == "", "unterminated class is invalid")
	default: // legacy octal escape \dd (two or three octal digits) => that code unit
		d := verifNondetString(2)
		verifAssume('0' <= d[0] && d[0] <= '3' && '0' <= d[1] && d[1] <= '7')
		out, err := TransformRegExp("\\" + d)
		val := int(d[0]-'0')*8 + int(d[1]-'0')
		ok := err == nil && len(out) == 4 && out[0] == '\\' && out[1] == 'x' && verifIsHex(out[2]) && verifIsHex(out[3])
		verifAssert(ok, "octal escape is emitted as \\xHH")
		if ok {
			verifAssert(verifHexVal(out[2])*16+verifHexVal(out[3]) == val, "octal escape value")
		}
	}
	verifCover("reached")
}
