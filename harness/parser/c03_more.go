//go:build verif

package parser

import "github.com/robertkrimen/otto/ast"

func verifExprOf(src string) ast.Expression {
	prog, err := newParser("", src, 1, nil).parse()
	if err != nil || prog == nil || len(prog.Body) != 1 {
		return nil
	}
	es, ok := prog.Body[0].(*ast.ExpressionStatement)
	if !ok {
		return nil
	}
	return es.Expression
}

func verifIsUnary(e ast.Expression, op string, operand string) bool {
	u, ok := e.(*ast.UnaryExpression)
	return ok && !u.Postfix && u.Operator.String() == op && verifIsIdent(u.Operand, operand)
}

// C03-H2: unary operators bind tighter than every binary operator; the
// conditional operator sits between the binary operators and assignment; the
// comma operator is lowest. Operator bytes are symbolic.
func VerifH_C03_unary_conditional() {
	u := verifNondetString(1)
	verifAssume(u[0] == '-' || u[0] == '+' || u[0] == '!' || u[0] == '~')
	op := verifOpSlot()
	prec, _ := verifOpInfo(op)
	verifAssume(prec > 0)
	isAssign := prec == 3
	verifCover("reached")
	switch verifChoose(5) {
	case 0: // U a B b
		verifAssume(!isAssign)
		e := verifExprOf(u + " a " + op + " b")
		root, l, r := verifRootOp(e)
		verifAssert(e != nil && root == op && verifIsUnary(l, u, "a") && verifIsIdent(r, "b"), "11.4: (U a) B b")
	case 1: // a B U b
		e := verifExprOf("a " + op + " " + u + " b")
		root, l, r := verifRootOp(e)
		verifAssert(e != nil && root == op && verifIsIdent(l, "a") && verifIsUnary(r, u, "b"), "11.4: a B (U b)")
	case 2: // a B b ? c : d
		e := verifExprOf("a " + op + " b ? c : d")
		if isAssign {
			root, l, r := verifRootOp(e)
			c, ok := r.(*ast.ConditionalExpression)
			verifAssert(e != nil && root == op && verifIsIdent(l, "a") && ok && verifIsIdent(c.Test, "b") && verifIsIdent(c.Consequent, "c") && verifIsIdent(c.Alternate, "d"), "11.13: a = (b ? c : d)")
		} else {
			c, ok := e.(*ast.ConditionalExpression)
			verifAssert(ok, "11.12: conditional at the root")
			if ok {
				root, l, r := verifRootOp(c.Test)
				verifAssert(root == op && verifIsIdent(l, "a") && verifIsIdent(r, "b") && verifIsIdent(c.Consequent, "c") && verifIsIdent(c.Alternate, "d"), "11.12: (a B b) ? c : d")
			}
		}
	case 3: // a ? b : c B d
		e := verifExprOf("a ? b : c " + op + " d")
		c, ok := e.(*ast.ConditionalExpression)
		verifAssert(ok, "11.12: conditional at the root")
		if ok {
			root, l, r := verifRootOp(c.Alternate)
			verifAssert(verifIsIdent(c.Test, "a") && verifIsIdent(c.Consequent, "b") && root == op && verifIsIdent(l, "c") && verifIsIdent(r, "d"), "11.12: a ? b : (c B d)")
		}
	default: // a B b , c
		e := verifExprOf("a " + op + " b , c")
		s, ok := e.(*ast.SequenceExpression)
		verifAssert(ok && len(s.Sequence) == 2, "11.14: comma at the root")
		if ok && len(s.Sequence) == 2 {
			root, l, r := verifRootOp(s.Sequence[0])
			verifAssert(root == op && verifIsIdent(l, "a") && verifIsIdent(r, "b") && verifIsIdent(s.Sequence[1], "c"), "11.14: (a B b) , c")
		}
	}
}

// C03-H5: the grammar inside and around the conditional operator (ES5 11.12):
// test is a LogicalORExpression, consequent and alternate are
// AssignmentExpressions - so an operator of any precedence nests inside them,
// a comma does not (syntax error in the consequent, sequence around the whole
// conditional after the alternate) - and conditionals nest to the right.
func VerifH_C03_conditional_grammar() {
	verifCover("reached")
	switch verifChoose(6) {
	case 0: // a ? b B c : d
		op := verifOpSlot()
		prec, _ := verifOpInfo(op)
		verifAssume(prec > 0)
		e := verifExprOf("a ? b " + op + " c : d")
		c, ok := e.(*ast.ConditionalExpression)
		verifAssert(ok, "11.12: a ? (b B c) : d parses as a conditional")
		if ok {
			root, l, r := verifRootOp(c.Consequent)
			verifAssert(verifIsIdent(c.Test, "a") && root == op && verifIsIdent(l, "b") && verifIsIdent(r, "c") && verifIsIdent(c.Alternate, "d"), "11.12: the consequent is an AssignmentExpression")
		}
	case 1: // a ? b , c : d  is not a program
		_, err := newParser("", "a ? b , c : d", 1, nil).parse()
		verifAssert(err != nil, "11.12: a comma expression is not allowed as the consequent")
	case 2: // a ? b : c , d
		e := verifExprOf("a ? b : c , d")
		s, ok := e.(*ast.SequenceExpression)
		verifAssert(ok && len(s.Sequence) == 2, "11.14: comma after the alternate ends the conditional")
		if ok && len(s.Sequence) == 2 {
			c, ok := s.Sequence[0].(*ast.ConditionalExpression)
			verifAssert(ok && verifIsIdent(c.Alternate, "c") && verifIsIdent(s.Sequence[1], "d"), "11.14: (a ? b : c) , d")
		}
	case 3: // a ? b ? c : d : e
		e := verifExprOf("a ? b ? c : d : e")
		c, ok := e.(*ast.ConditionalExpression)
		verifAssert(ok, "nested conditional in the consequent")
		if ok {
			in, ok := c.Consequent.(*ast.ConditionalExpression)
			verifAssert(ok && verifIsIdent(c.Test, "a") && verifIsIdent(c.Alternate, "e") && verifIsIdent(in.Test, "b") && verifIsIdent(in.Consequent, "c") && verifIsIdent(in.Alternate, "d"), "11.12: a ? (b ? c : d) : e")
		}
	case 4: // a ? b : c ? d : e
		e := verifExprOf("a ? b : c ? d : e")
		c, ok := e.(*ast.ConditionalExpression)
		verifAssert(ok, "nested conditional in the alternate")
		if ok {
			in, ok := c.Alternate.(*ast.ConditionalExpression)
			verifAssert(ok && verifIsIdent(c.Test, "a") && verifIsIdent(c.Consequent, "b") && verifIsIdent(in.Test, "c") && verifIsIdent(in.Consequent, "d") && verifIsIdent(in.Alternate, "e"), "11.12: a ? b : (c ? d : e)")
		}
	default: // a ? b : c  followed by an unbalanced ':' or a missing ':'
		var src string
		if verifNondetBool() {
			src = "a ? b : c : d"
		} else {
			src = "a ? b"
		}
		_, err := newParser("", src, 1, nil).parse()
		verifAssert(err != nil, "11.12: '?' needs exactly one matching ':'")
	}
}
