//go:build verif

package otto

// Abstract property record and descriptor for the ES5 8.12.9 reference.
type absProp struct {
	present  bool
	accessor bool
	value    float64
	get, set int // 0 undefined, 1 fA, 2 fB
	w, e, c  bool
}

type absDesc struct {
	hasValue bool
	value    float64
	hasW, w  bool
	hasE, e  bool
	hasC, c  bool
	hasGet   bool
	get      int
	hasSet   bool
	set      int
}

func (d absDesc) isData() bool     { return d.hasValue || d.hasW }
func (d absDesc) isAccessor() bool { return d.hasGet || d.hasSet }

// refSameValue: ES5 9.12 on numbers.
func refSameValue(a, b float64) bool { return sameF64(a, b) }

// refDefineOwnProperty: ES5 8.12.9. Returns (accepted, new state).
func refDefineOwnProperty(cur absProp, extensible bool, d absDesc) (bool, absProp) {
	if !cur.present {
		if !extensible {
			return false, cur
		}
		n := absProp{present: true}
		if d.isAccessor() {
			n.accessor = true
			if d.hasGet {
				n.get = d.get
			}
			if d.hasSet {
				n.set = d.set
			}
		} else {
			if d.hasValue {
				n.value = d.value
			}
			if d.hasW {
				n.w = d.w
			}
		}
		if d.hasE {
			n.e = d.e
		}
		if d.hasC {
			n.c = d.c
		}
		return true, n
	}
	if !d.hasValue && !d.hasW && !d.hasE && !d.hasC && !d.hasGet && !d.hasSet {
		return true, cur
	}
	if !cur.c {
		if d.hasC && d.c {
			return false, cur
		}
		if d.hasE && d.e != cur.e {
			return false, cur
		}
	}
	n := cur
	switch {
	case !d.isData() && !d.isAccessor():
		// generic: no further validation
	case cur.accessor != d.isAccessor():
		if !cur.c {
			return false, cur
		}
		if cur.accessor {
			n.accessor = false
			n.get, n.set = 0, 0
			n.value = 0
			n.w = false
		} else {
			n.accessor = true
			n.value = 0
			n.w = false
			n.get, n.set = 0, 0
		}
	case !cur.accessor:
		if !cur.c {
			if !cur.w && d.hasW && d.w {
				return false, cur
			}
			if !cur.w && d.hasValue && !refSameValue(d.value, cur.value) {
				return false, cur
			}
		}
	default:
		if !cur.c {
			if d.hasSet && d.set != cur.set {
				return false, cur
			}
			if d.hasGet && d.get != cur.get {
				return false, cur
			}
		}
	}
	if d.hasValue {
		n.value = d.value
	}
	if d.hasW {
		n.w = d.w
	}
	if d.hasE {
		n.e = d.e
	}
	if d.hasC {
		n.c = d.c
	}
	if d.hasGet {
		n.get = d.get
	}
	if d.hasSet {
		n.set = d.set
	}
	return true, n
}

func verifMode(w, e, c bool) propertyMode {
	var m propertyMode
	if w {
		m |= 0o100
	}
	if e {
		m |= 0o010
	}
	if c {
		m |= 0o001
	}
	return m
}

var verifFnNames = []string{"undefined", "fA", "fB"}

// verifSetupObject creates global object o with property p in an arbitrary
// valid state (absent / data / accessor, symbolic attributes) and symbolic
// extensibility.
func verifSetupObject(vm *Otto, undefinedValue bool) (absProp, bool, *object) {
	vm.Run("var fA = function(){return 1}, fB = function(v){}; var o = {}")
	ov, _ := vm.Get("o")
	obj := ov.object()
	var cur absProp
	switch verifChoose(3) {
	case 0:
	case 1:
		cur.present = true
		cur.w, cur.e, cur.c = verifNondetBool(), verifNondetBool(), verifNondetBool()
		cur.value = verifNondetFloat64()
		obj.property["p"] = property{value: numV(cur.value), mode: verifMode(cur.w, cur.e, cur.c)}
		obj.propertyOrder = append(obj.propertyOrder, "p")
	default:
		cur.present, cur.accessor = true, true
		cur.e, cur.c = verifNondetBool(), verifNondetBool()
		cur.get, cur.set = verifChoose(2), 2*verifChoose(2)
		var gs propertyGetSet
		if cur.get == 1 {
			v, _ := vm.Get("fA")
			gs[0] = v.object()
		}
		if cur.set == 2 {
			v, _ := vm.Get("fB")
			gs[1] = v.object()
		}
		obj.property["p"] = property{value: gs, mode: 0o200 | verifMode(false, cur.e, cur.c)} // accessors are stored with the writable digit "unset"
		obj.propertyOrder = append(obj.propertyOrder, "p")
	}
	ext := verifNondetBool()
	obj.extensible = ext
	return cur, ext, obj
}

// verifObserve reads the state of o.p back through the public reflection API.
func verifObserve(vm *Otto) absProp {
	var got absProp
	r, ok := verifRun(vm, "var r = Object.getOwnPropertyDescriptor(o, 'p'); r")
	if !ok || r.IsUndefined() {
		return got
	}
	got.present = true
	ro := r.Object()
	bv := func(name string) bool {
		v, _ := ro.Get(name)
		b, _ := v.ToBoolean()
		return b
	}
	got.e, got.c = bv("enumerable"), bv("configurable")
	isAcc, _ := vm.Run("'get' in r || 'set' in r")
	if b, _ := isAcc.ToBoolean(); b {
		got.accessor = true
		g, _ := vm.Run("r.get === fA ? 1 : r.get === fB ? 2 : r.get === undefined ? 0 : 9")
		s, _ := vm.Run("r.set === fA ? 1 : r.set === fB ? 2 : r.set === undefined ? 0 : 9")
		gi, _ := g.ToInteger()
		si, _ := s.ToInteger()
		got.get, got.set = int(gi), int(si)
	} else {
		got.w = bv("writable")
		v, _ := ro.Get("value")
		if v.IsUndefined() {
			got.value = 0
		} else {
			got.value, _ = v.ToFloat()
		}
	}
	return got
}

func absEqual(a, b absProp, undefinedIsZero bool) bool {
	if a.present != b.present {
		return false
	}
	if !a.present {
		return true
	}
	if a.accessor != b.accessor || a.e != b.e || a.c != b.c {
		return false
	}
	if a.accessor {
		return a.get == b.get && a.set == b.set
	}
	return a.w == b.w && sameF64(a.value, b.value)
}

// C07-H1: one step of Object.defineProperty from an arbitrary valid state.
func VerifH_C07_defineProperty() {
	vm := New()
	cur, ext, _ := verifSetupObject(vm, false)
	// descriptor: presence of each field is a case split, values are symbolic
	var d absDesc
	script := "var d = {}; "
	if verifChoose(2) == 1 {
		d.hasE, d.e = true, verifNondetBool()
		vm.Set("dE", d.e)
		script += "d.enumerable = dE; "
	}
	if verifChoose(2) == 1 {
		d.hasC, d.c = true, verifNondetBool()
		vm.Set("dC", d.c)
		script += "d.configurable = dC; "
	}
	switch verifChoose(3) {
	case 1: // data fields
		if verifChoose(2) == 1 {
			d.hasW, d.w = true, verifNondetBool()
			vm.Set("dW", d.w)
			script += "d.writable = dW; "
		}
		if verifChoose(2) == 1 {
			d.hasValue, d.value = true, verifNondetFloat64()
			vm.Set("dV", d.value)
			script += "d.value = dV; "
		}
	case 2: // accessor fields
		if verifChoose(2) == 1 {
			d.hasGet, d.get = true, verifChoose(2)
			script += "d.get = " + verifFnNames[d.get] + "; "
		}
		if verifChoose(2) == 1 {
			d.hasSet, d.set = true, 2*verifChoose(2)
			script += "d.set = " + verifFnNames[d.set] + "; "
		}
	}
	script += "var res = 'ok'; try { Object.defineProperty(o, 'p', d) } catch (e) { res = (e instanceof TypeError) ? 'TypeError' : 'other' } res"
	verifLog(script)
	wantOK, want := refDefineOwnProperty(cur, ext, d)
	v, ok := verifRun(vm, script)
	verifCover("reached")
	if !ok {
		verifAssert(false, "defineProperty script completes")
		return
	}
	res := v.String()
	if wantOK {
		verifAssert(res == "ok", "ES5 8.12.9: definition accepted")
	} else {
		verifAssert(res == "TypeError", "ES5 8.12.9: definition rejected with TypeError")
	}
	got := verifObserve(vm)
	verifAssertK(absEqual(got, want, true), "C07-accessor-both-undefined", want.present && want.accessor && want.get == 0 && want.set == 0, "ES5 8.12.9: resulting property state")
	// no duplicate in enumeration order, present iff property exists
	cnt, _ := vm.Run("Object.getOwnPropertyNames(o).filter(function(n){return n === 'p'}).length")
	ci, _ := cnt.ToInteger()
	if want.present {
		verifAssert(ci == 1, "property listed exactly once")
	} else {
		verifAssert(ci == 0, "absent property not listed")
	}
}
