//go:build verif

package otto

// C08-H7: push / pop / shift / unshift / reverse / concat / map / splice (ES5 15.4.4) on
// arrays of 0..3 slots where each slot is a hole or holds a symbolic double:
// length, which indices exist afterwards (holes move with their neighbours and
// stay holes), the element values and the return value, against a sparse-array
// model in Go.

type verifSlot struct {
	has bool
	v   float64
}

func verifObserveArray(vm *Otto, name string) ([]verifSlot, bool) {
	l, err := vm.Run(name + ".length")
	if err != nil {
		return nil, false
	}
	lf, _ := l.ToFloat()
	if !(lf >= 0 && lf <= 16) {
		return nil, false
	}
	out := make([]verifSlot, int(lf))
	for i := range out {
		h, _ := vm.Run(verifItoa(int64(i)) + " in " + name)
		hb, _ := h.ToBoolean()
		out[i].has = hb
		if hb {
			e, _ := vm.Run(name + "[" + verifItoa(int64(i)) + "]")
			if !e.IsNumber() {
				return nil, false
			}
			out[i].v, _ = e.ToFloat()
		}
	}
	return out, true
}

func verifSlotsEqual(a, b []verifSlot) bool {
	if len(a) != len(b) {
		return false
	}
	for i := range a {
		if a[i].has != b[i].has || (a[i].has && !sameF64(a[i].v, b[i].v)) {
			return false
		}
	}
	return true
}

func VerifH_C08_mutators() {
	vm := New()
	n := verifChoose(verifParam("maxn", 3) + 1)
	cur := make([]verifSlot, n)
	src := "var a = []; a.length = " + verifItoa(int64(n)) + "; "
	for i := range cur {
		if verifNondetBool() {
			cur[i] = verifSlot{true, verifNondetFloat64()}
			name := "x" + verifItoa(int64(i))
			vm.Set(name, cur[i].v)
			src += "a[" + verifItoa(int64(i)) + "] = " + name + "; "
		}
	}
	y, z := verifNondetFloat64(), verifNondetFloat64()
	vm.Set("y", y)
	vm.Set("z", z)
	if _, err := vm.Run(src); err != nil {
		verifAssert(false, "setup")
		return
	}
	op := verifChoose(9)
	var want []verifSlot
	var ret verifSlot // has=false: undefined
	retIsArray := false
	var script string
	switch op {
	case 0:
		script = "var r = a.push(y, z)"
		want = append(append([]verifSlot{}, cur...), verifSlot{true, y}, verifSlot{true, z})
		ret = verifSlot{true, float64(n + 2)}
	case 1:
		script = "var r = a.pop()"
		if n > 0 {
			want = append([]verifSlot{}, cur[:n-1]...)
			ret = cur[n-1]
		} else {
			want = []verifSlot{}
		}
	case 2:
		script = "var r = a.shift()"
		if n > 0 {
			want = append([]verifSlot{}, cur[1:]...)
			ret = cur[0]
		} else {
			want = []verifSlot{}
		}
	case 3:
		script = "var r = a.unshift(y, z)"
		want = append([]verifSlot{{true, y}, {true, z}}, cur...)
		ret = verifSlot{true, float64(n + 2)}
	case 4:
		script = "var r = a.reverse(); r = (r === a) ? 1 : 0"
		want = make([]verifSlot, n)
		for i := range cur {
			want[n-1-i] = cur[i]
		}
		ret = verifSlot{true, 1}
	case 6:
		script = "var r = a.map(function (v) { return v })"
		want = append([]verifSlot{}, cur...)
	case 8: // no argument at all: nothing is removed
		script = "var r = a.splice(); r = r.length"
		want = append([]verifSlot{}, cur...)
		ret = verifSlot{true, 0}
	case 7:
		script = "var r = a.splice(0, a.length)"
		want = []verifSlot{}
	default:
		script = "var r = a.concat([y, , z], y, [[z]].length)"
		retIsArray = true
		want = append([]verifSlot{}, cur...)
	}
	verifLog(script)
	_, ok := verifRun(vm, script)
	verifCover("reached")
	verifAssert(ok, "the method completes")
	if !ok {
		return
	}
	got, okObs := verifObserveArray(vm, "a")
	verifAssert(okObs && verifSlotsEqual(got, want), "15.4.4: receiver afterwards (length, holes, values)")
	if op == 6 || op == 7 {
		r, okR := verifObserveArray(vm, "r")
		verifAssert(okR && verifSlotsEqual(r, cur), "15.4.4.19 map / 15.4.4.12 splice: the result has the receiver's elements and its holes")
		return
	}
	if retIsArray {
		r, okR := verifObserveArray(vm, "r")
		wantR := append(append([]verifSlot{}, cur...), verifSlot{true, y}, verifSlot{}, verifSlot{true, z}, verifSlot{true, y}, verifSlot{true, 1})
		verifAssert(okR && verifSlotsEqual(r, wantR), "15.4.4.4 concat: arrays spread with their holes, other values appended")
		return
	}
	r, _ := vm.Get("r")
	if ret.has {
		rf, _ := r.ToFloat()
		verifAssert(r.IsNumber() && sameF64(rf, ret.v), "15.4.4: return value")
	} else {
		verifAssert(r.IsUndefined(), "15.4.4: return value is undefined (empty array or hole)")
	}
}

// C08-H8: assigning the length (15.4.5.1 step 3): any double - and undefined, a
// string, an object - that is not an integer in [0, 2^32) is a RangeError and
// changes nothing; otherwise the array is truncated / extended to exactly that length.
func VerifH_C08_length_assignment() {
	vm := New()
	x := verifNondetFloat64()
	vm.Set("x", x)
	kind := verifChoose(4)
	rhs := "x"
	valid := x >= 0 && x <= 4294967295 && x == refToInteger(x)
	switch kind {
	case 1:
		rhs, valid = "undefined", false
	case 2:
		rhs, valid = "'abc'", false
	case 3:
		rhs, valid = "{}", false
	}
	if kind == 0 && valid {
		verifAssume(x < 32) // keep the accepted lengths small
	}
	v, ok := verifRun(vm, "var a = [1, 2, 3], r = 'ok'; try { a.length = "+rhs+" } catch (e) { r = e instanceof RangeError ? 'RangeError' : 'other' } [r, a.length, 2 in a, a[0]].join()")
	verifCover("reached")
	verifAssert(ok, "the script completes")
	if !ok {
		return
	}
	if !valid {
		verifAssert(v.String() == "RangeError,3,true,1", "15.4.5.1: an invalid length is a RangeError and the array is unchanged")
		return
	}
	n := int64(x)
	has2 := "false"
	if n >= 3 {
		has2 = "true"
	}
	first := "1"
	if n == 0 {
		first = ""
	}
	verifAssert(v.String() == "ok,"+verifItoa(n)+","+has2+","+first, "15.4.5.1: the array has exactly the assigned length; elements at or beyond it are gone")
}
