//go:build verif

package otto

import "math"

func verifCountFrames(stack string) int {
	n := 0
	for i := 0; i+8 <= len(stack); i++ {
		if stack[i:i+8] == "\n    at " {
			n++
		}
	}
	return n
}

// C19-H2: the stack trace of an interpreter-raised error holds, innermost
// first, every active call up to the configured limit (0 = no limit).
func VerifH_C19_trace_limit() {
	const prog = `var st = ''; function f(n) { if (n == 0) { return notDefinedAnywhere } return f(n - 1) }
try { f(5) } catch (e) { st = e.stack; nm = e.name; isRef = e instanceof ReferenceError }`
	ref := New()
	ref.SetStackTraceLimit(0)
	ref.Run(prog)
	full, _ := ref.Get("st")
	total := verifCountFrames(full.String())
	verifAssert(total == 7, "six calls of f and the program itself are on the unlimited trace")

	vm := New()
	lim := int(verifNondetInt8())
	verifAssume(lim >= 0 && lim <= 12)
	vm.SetStackTraceLimit(lim)
	_, ok := verifRun(vm, prog)
	verifCover("reached")
	verifAssert(ok, "program runs")
	st, _ := vm.Get("st")
	got := verifCountFrames(st.String())
	want := total
	if lim != 0 && lim < total {
		want = lim
	}
	verifAssert(got == want, "trace holds min(limit, depth) frames (limit 0: all)")
	nm, _ := vm.Get("nm")
	ir, _ := vm.Get("isRef")
	irb, _ := ir.ToBoolean()
	verifAssert(nm.String() == "ReferenceError" && irb, "an unresolvable reference raises a ReferenceError instance")
	s := st.String()
	verifAssert(len(s) > 16 && s[:15] == "ReferenceError:", "stack starts with 'Name: message'")
}

// C19-H3: interpreter-raised errors are instances of the ES5-specified native
// constructor, whatever the offending operand is.
func VerifH_C19_error_classes() {
	vm := New()
	wrap := func(body string) string {
		return "var cls = 'none'; try { " + body + " } catch (e) { cls = e instanceof TypeError ? 'TypeError' : e instanceof RangeError ? 'RangeError' : e instanceof ReferenceError ? 'ReferenceError' : e instanceof SyntaxError ? 'SyntaxError' : e instanceof URIError ? 'URIError' : 'other'; nm = e.name; msg = typeof e.message == 'string' ? e.message : ''; proto = Object.getPrototypeOf(e) === this[cls].prototype } cls"
	}
	var script, want string
	switch verifChoose(12) {
	case 10: // RegExp flags: SyntaxError iff a character other than g, i, m occurs, or one occurs twice
		n := verifChoose(3)
		f := verifNondetString(n)
		bad := false
		for i := 0; i < n; i++ {
			verifAssume(f[i] < 0x80)
			if f[i] != 'g' && f[i] != 'i' && f[i] != 'm' {
				bad = true
			}
			for j := 0; j < i; j++ {
				if f[j] == f[i] {
					bad = true
				}
			}
		}
		vm.Set("x", f)
		script = "new RegExp('a', x)"
		if bad {
			want = "SyntaxError"
		} else {
			want = "none"
		}
	case 0: // calling or constructing a non-function: any primitive, every call form
		verifSetKind(vm, "x", verifChoose(5), 2)
		vm.Run("var o = {m: x}")
		forms := []string{"x()", "new x()", "new x", "o.m()", "new o.m()", "new o.m", "o['m'](1)", "new o['m'](1, 2)", "(function(){ return x })()()", "new (function(){ return x })()(1)", "[x][0]()"}
		script, want = forms[verifChoose(len(forms))], "TypeError"
	case 1: // property of undefined / null
		verifSetKind(vm, "x", verifChoose(2), 0)
		script, want = "x.p", "TypeError"
	case 2: // new Array(len): RangeError iff len is not a uint32
		l := verifNondetFloat64()
		vm.Set("x", l)
		script = "new Array(x)"
		if l >= 0 && l <= 4294967295 && l == refToInteger(l) {
			// avoid huge allocations in the accepted case
			verifAssume(l < 64)
			want = "none"
		} else {
			want = "RangeError"
		}
	case 3: // in / instanceof with a primitive right operand
		verifSetKind(vm, "x", verifChoose(5), 2)
		if verifNondetBool() {
			script = "'a' in x"
		} else {
			script = "({}) instanceof x"
		}
		want = "TypeError"
	case 4: // array length assignment
		l := verifNondetFloat64()
		vm.Set("x", l)
		script = "var a = []; a.length = x"
		if l >= 0 && l <= 4294967295 && l == refToInteger(l) {
			verifAssume(l < 64)
			want = "none"
		} else {
			want = "RangeError"
		}
	case 5:
		script, want = "thisNameIsNotDefined", "ReferenceError"
	case 6:
		script, want = []string{"eval('var = 1')", "Function('var = 1')", "new Function('a', 'return +')", "new RegExp('(')"}[verifChoose(4)], "SyntaxError"
	case 11: // toISOString of an invalid date (15.9.5.43)
		t := verifNondetFloat64()
		verifAssume(t != t || math.Abs(t) > 8.64e15)
		vm.Set("x", t)
		script, want = "new Date(x).toISOString()", "RangeError"
	case 8: // unresolvable reference in every position it can be read
		script, want = []string{"notDefined()", "new notDefined()", "notDefined.p", "1 + notDefined", "notDefined++", "typeof notDefined.p"}[verifChoose(6)], "ReferenceError"
	case 9: // radix / fraction digits out of range
		r := verifNondetFloat64()
		vm.Set("x", r)
		ri := refToInteger(r)
		if verifNondetBool() {
			script = "(5).toString(x)"
			if ri >= 2 && ri <= 36 {
				want = "none"
			} else {
				want = "RangeError"
			}
		} else {
			script = "(5).toFixed(x)"
			if ri >= 0 && ri <= 20 {
				want = "none"
			} else {
				verifAssume(ri < 0 || ri > 100) // 21..100 digits: allowed by later editions, accepted or rejected
				want = "RangeError"
			}
		}
	default:
		script, want = "var c = {}; c.c = c; JSON.stringify(c)", "TypeError"
	}
	verifLog(script)
	v, ok := verifRun(vm, wrap(script))
	verifCover("reached")
	verifAssert(ok, "script completes")
	if !ok {
		return
	}
	verifAssert(v.String() == want, "ES5 native error class at the raise site")
	if want != "none" && v.String() == want {
		nm, _ := vm.Get("nm")
		pr, _ := vm.Get("proto")
		prb, _ := pr.ToBoolean()
		mg, _ := vm.Get("msg")
		verifAssert(nm.String() == want && prb, "name and prototype chain of the error object")
		verifAssertK(len(mg.String()) > 0, "C19-array-length-empty-message", want == "RangeError" && (script == "new Array(x)" || script == "var a = []; a.length = x"), "non-empty message (a string)")
	}
}
