//go:build verif

package otto

// refArrayIndex: ES5 15.4: P is an array index iff ToString(ToUint32(P)) == P
// and ToUint32(P) != 2^32-1, i.e. a decimal numeral without sign, without
// leading zeros (except "0" itself), below 4294967295.
func refArrayIndex(s string) int64 {
	if len(s) == 0 || len(s) > 10 {
		return -1
	}
	if s[0] == '0' && len(s) > 1 {
		return -1
	}
	var v int64
	for i := 0; i < len(s); i++ {
		if s[i] < '0' || s[i] > '9' {
			return -1
		}
		v = v*10 + int64(s[i]-'0')
	}
	if v >= 4294967295 {
		return -1
	}
	return v
}

// C08-H1: only canonical array-index strings are treated as indices.
func VerifH_C08_array_index() {
	var s string
	if verifChoose(2) == 0 {
		n := verifChoose(verifParam("maxlen", 3) + 1)
		s = verifNondetString(n)
	} else {
		// around 2^32: "429496729" + one symbolic byte
		s = "429496729" + verifNondetString(1)
	}
	got := stringToArrayIndex(s)
	want := refArrayIndex(s)
	verifCover("reached")
	verifAssert(got == want, "15.4: canonical array index recognition")
}

// ... and through the public API: a[name] = 1 changes length only for an array index.
func VerifH_C08_array_index_api() {
	vm := New()
	n := verifChoose(verifParam("maxlen", 2) + 1)
	s := verifNondetString(n)
	for i := 0; i < n; i++ {
		verifAssume(s[i] < 0x80)
	}
	vm.Set("s", s)
	v, ok := verifRun(vm, "var a = []; a[s] = 1; a.length")
	verifCover("reached")
	if !ok {
		return
	}
	f, _ := v.ToFloat()
	want := refArrayIndex(s)
	if want >= 0 {
		verifAssert(f == float64(want+1), "assigning at an array index grows length past it")
	} else {
		verifAssert(f == 0, "a non-index property name leaves length alone")
	}
}
