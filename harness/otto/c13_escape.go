//go:build verif

package otto

const refHexUpper = "0123456789ABCDEF"

// ES5 B.2.1 escape on UTF-16 code units.
func refEscape(u []uint16) string {
	out := []byte{}
	for _, c := range u {
		switch {
		case c < 128 && (c >= 'A' && c <= 'Z' || c >= 'a' && c <= 'z' || c >= '0' && c <= '9' || c == '@' || c == '*' || c == '_' || c == '+' || c == '-' || c == '.' || c == '/'):
			out = append(out, byte(c))
		case c < 256:
			out = append(out, '%', refHexUpper[c>>4], refHexUpper[c&15])
		default:
			out = append(out, '%', 'u', refHexUpper[c>>12], refHexUpper[(c>>8)&15], refHexUpper[(c>>4)&15], refHexUpper[c&15])
		}
	}
	return string(out)
}

// escape / unescape (B.2.1, B.2.2) on valid UTF-8 strings.
func VerifH_C13_escape() {
	vm := New()
	_, u := verifSubject(vm)
	v, ok := verifRun(vm, "escape(s)")
	verifCover("reached")
	verifAssert(ok, "escape does not throw")
	if !ok {
		return
	}
	verifAssertK(v.String() == refEscape(u), "C13-escape-astral", len(u) > 0 && hasSurrogate(u), "B.2.1 escape")
	if id, okI := verifRun(vm, "s.indexOf('%') >= 0 || unescape(s) === s"); okI {
		ib, _ := id.ToBoolean()
		verifAssert(ib, "B.2.2: unescape keeps text without escapes unchanged")
	}
	r, ok2 := verifRun(vm, "unescape(escape(s)) === s")
	if ok2 {
		b, _ := r.ToBoolean()
		verifAssertK(b, "C13-escape-astral", hasSurrogate(u), "unescape(escape(s)) === s")
	}
}

func hasSurrogate(u []uint16) bool {
	for _, c := range u {
		if c >= 0xD800 && c <= 0xDFFF {
			return true
		}
	}
	return false
}

// unescape on ASCII text with escapes: %XX and %uXXXX decode, anything else is kept.
func VerifH_C13_unescape() {
	vm := New()
	h := verifNondetString(verifParam("hexlen", 3))
	for i := 0; i < len(h); i++ {
		verifAssume(h[i] < 0x80)
	}
	s := "%" + h
	vm.Set("s", s)
	v, ok := verifRun(vm, "unescape(s)")
	verifCover("reached")
	verifAssert(ok, "unescape does not throw")
	if !ok {
		return
	}
	got := valueUnits(v)
	var want []uint16
	if len(h) >= 2 && refHexVal(h[0]) >= 0 && refHexVal(h[1]) >= 0 {
		want = append(want, uint16(refHexVal(h[0])*16+refHexVal(h[1])))
		for i := 2; i < len(h); i++ {
			want = append(want, uint16(h[i]))
		}
	} else {
		want = append(want, '%')
		for i := 0; i < len(h); i++ {
			want = append(want, uint16(h[i]))
		}
	}
	// a "%" later in h would start another escape: keep the claim to one escape
	for i := 0; i < len(h); i++ {
		verifAssume(h[i] != '%')
	}
	verifAssert(unitsEqual(got, want), "B.2.2 unescape: %XX decodes to that code unit, otherwise the text is kept")
}
