//go:build verif

package otto

// C15-H1: every Go scalar kind survives Set -> Get -> Export / To*, and the
// script sees the natural JavaScript counterpart.
func VerifH_C15_scalar_roundtrip() {
	vm := New()
	kind := verifChoose(14)
	var in interface{}
	var asFloat float64
	var asInt int64
	isInt, isUnsigned := false, false
	var u64 uint64
	switch kind {
	case 0:
		x := verifNondetBool()
		in = x
		vm.Set("v", x)
		v, _ := vm.Get("v")
		out, _ := v.Export()
		b, ok := out.(bool)
		verifAssert(ok && b == x, "bool survives the round trip")
		tb, _ := v.ToBoolean()
		verifAssert(v.IsBoolean() && tb == x, "IsBoolean/ToBoolean")
		r, _ := vm.Run("typeof v === 'boolean' && v === (v ? true : false)")
		rb, _ := r.ToBoolean()
		verifAssert(rb, "script sees a boolean")
		verifCover("reached")
		return
	case 1:
		x := verifNondetInt8()
		in, asInt, isInt = x, int64(x), true
	case 2:
		x := verifNondetInt16()
		in, asInt, isInt = x, int64(x), true
	case 3:
		x := verifNondetInt32()
		in, asInt, isInt = x, int64(x), true
	case 4:
		x := verifNondetInt64()
		in, asInt, isInt = x, x, true
	case 5:
		x := verifNondetInt()
		in, asInt, isInt = x, int64(x), true
	case 6:
		x := verifNondetUint8()
		in, asInt, isInt = x, int64(x), true
	case 7:
		x := verifNondetUint16()
		in, asInt, isInt = x, int64(x), true
	case 8:
		x := verifNondetUint32()
		in, asInt, isInt = x, int64(x), true
	case 9:
		x := verifNondetUint64()
		in, isInt, isUnsigned, u64 = x, true, true, x
	case 10:
		x := verifNondetUint()
		in, isInt, isUnsigned, u64 = x, true, true, uint64(x)
	case 11:
		x := verifNondetFloat32()
		in, asFloat = x, float64(x)
	case 12:
		x := verifNondetFloat64()
		in, asFloat = x, x
	default:
		n := verifChoose(3)
		x := verifNondetString(n)
		verifAssume(verifValidUTF8(x))
		vm.Set("v", x)
		v, _ := vm.Get("v")
		out, _ := v.Export()
		s, ok := out.(string)
		verifAssert(ok && s == x, "string survives the round trip")
		verifAssert(v.IsString() && v.String() == x, "IsString/String")
		r, _ := vm.Run("typeof v === 'string'")
		rb, _ := r.ToBoolean()
		verifAssert(rb, "script sees a string")
		verifCover("reached")
		return
	}
	vm.Set("v", in)
	v, _ := vm.Get("v")
	verifCover("reached")
	verifAssert(v.IsNumber(), "numeric kinds arrive as numbers")
	out, _ := v.Export()
	switch kind {
	case 11: // float32 is widened to float64 (documented)
		of, ok := out.(float64)
		verifAssert(ok && sameF64(of, asFloat), "Export of a float32 returns the widened float64")
	case 12:
		of, ok := out.(float64)
		verifAssert(ok && sameF64(of, asFloat), "Export of a float64 returns it")
	default:
		verifAssert(out == in, "Export returns the original Go value with its dynamic type")
	}
	r, _ := vm.Run("typeof v === 'number'")
	rb, _ := r.ToBoolean()
	verifAssert(rb, "script sees a number")
	f, _ := v.ToFloat()
	i, _ := v.ToInteger()
	{
		// ToBoolean (9.2) of every numeric kind, Go side and script side
		truthy := asFloat != 0 && asFloat == asFloat
		if isUnsigned {
			truthy = u64 != 0
		} else if isInt {
			truthy = asInt != 0
		}
		var tb bool
		var terr error
		kindB, _ := verifCatch(func() { tb, terr = v.ToBoolean() })
		verifAssert(kindB == verifNormal && terr == nil && tb == truthy, "ToBoolean of a number of any Go kind")
		cond, cerr := vm.Run("v ? 1 : 0")
		cf, _ := cond.ToFloat()
		verifAssert(cerr == nil && (cf == 1) == truthy, "a number of any Go kind used as a condition")
	}
	if isInt && verifParam("tostring", 1) == 1 {
		// ToString of an integer kind: the sign (an unsigned value never prints a
		// minus), and Go side and script side agree on the text
		str, _ := v.ToString()
		neg := len(str) > 0 && str[0] == '-'
		verifAssert(len(str) > 0 && neg == (!isUnsigned && asInt < 0), "ToString of an integer kind carries the right sign")
		js, _ := vm.Run("String(v)")
		verifAssert(js.String() == str, "ToString agrees with the script's String(v)")
	}
	switch {
	case isUnsigned:
		verifAssert(f == float64(u64), "ToFloat of an unsigned integer")
		verifAssertK(u64 > 1<<63-1 || i == int64(u64), "C15-tointeger-uint64-via-float", u64 > 1<<53, "ToInteger of an unsigned integer that fits int64 is exact")
		verifAssert(u64 <= 1<<63-1 || i == 1<<63-1, "ToInteger of an unsigned integer beyond int64 saturates at MaxInt64 (as the same number does as a float64), it does not wrap")
	case isInt:
		verifAssert(f == float64(asInt), "ToFloat of an integer")
		verifAssert(i == asInt, "ToInteger of an integer is exact")
	default:
		verifAssert(sameF64(f, asFloat), "ToFloat of a float (float32 widened exactly)")
		nan, _ := vm.Run("v !== v")
		nb, _ := nan.ToBoolean()
		verifAssert(nb == (asFloat != asFloat) && v.IsNaN() == (asFloat != asFloat), "NaN is seen as NaN on both sides")
	}
}

type verifNamedI8 int8
type verifNamedU16 uint16
type verifNamedI64 int64
type verifNamedI16 int16
type verifNamedI32 int32
type verifNamedInt int
type verifNamedU8 uint8
type verifNamedU32 uint32
type verifNamedUint uint
type verifNamedU64 uint64
type verifNamedF32 float32
type verifNamedF64 float64
type verifNamedStr string
type verifNamedBool bool

// Named numeric types take the reflect path of toValue.
func VerifH_C15_named_kinds() {
	vm := New()
	var want float64
	switch verifChoose(14) {
	case 4:
		x := verifNondetFloat32()
		var v Value
		kind, _ := verifCatch(func() {
			vm.Set("v", verifNamedF32(x))
			v, _ = vm.Get("v")
			f, _ := v.ToFloat()
			verifAssert(sameF64(f, float64(x)), "a named float32 keeps its value")
		})
		verifCover("reached")
		verifAssert(kind == verifNormal, "no Go panic escapes Set/Get/ToFloat for a named float32")
		return
	case 5:
		x := verifNondetFloat64()
		vm.Set("v", verifNamedF64(x))
		v, _ := vm.Get("v")
		f, _ := v.ToFloat()
		verifCover("reached")
		verifAssert(v.IsNumber() && sameF64(f, x), "a named float64 keeps its value")
		return
	case 6:
		x := verifNondetString(verifChoose(3))
		verifAssume(verifValidUTF8(x))
		vm.Set("v", verifNamedStr(x))
		v, _ := vm.Get("v")
		verifCover("reached")
		verifAssert(v.IsString() && v.String() == x, "a named string type arrives as a string")
		return
	case 7:
		x := verifNondetBool()
		vm.Set("v", verifNamedBool(x))
		v, _ := vm.Get("v")
		b, _ := v.ToBoolean()
		verifCover("reached")
		verifAssert(v.IsBoolean() && b == x, "a named bool type arrives as a boolean")
		return
	case 0:
		x := verifNondetInt8()
		vm.Set("v", verifNamedI8(x))
		want = float64(x)
	case 1:
		x := verifNondetUint16()
		vm.Set("v", verifNamedU16(x))
		want = float64(x)
	case 2:
		x := verifNondetInt64()
		vm.Set("v", verifNamedI64(x))
		want = float64(x)
	case 8:
		x := verifNondetInt16()
		vm.Set("v", verifNamedI16(x))
		want = float64(x)
	case 9:
		x := verifNondetInt32()
		vm.Set("v", verifNamedI32(x))
		want = float64(x)
	case 10:
		x := verifNondetInt()
		vm.Set("v", verifNamedInt(x))
		want = float64(x)
	case 11:
		x := verifNondetUint8()
		vm.Set("v", verifNamedU8(x))
		want = float64(x)
	case 12:
		x := verifNondetUint32()
		vm.Set("v", verifNamedU32(x))
		want = float64(x)
	case 13:
		x := verifNondetUint()
		vm.Set("v", verifNamedUint(x))
		want = float64(x)
	default:
		x := verifNondetUint64()
		vm.Set("v", verifNamedU64(x))
		want = float64(x)
	}
	v, _ := vm.Get("v")
	verifCover("reached")
	verifAssert(v.IsNumber(), "a named numeric type arrives as a number")
	f, _ := v.ToFloat()
	verifAssert(f == want, "the number seen is the Go value")
	r, _ := vm.Run("v")
	rf, _ := r.ToFloat()
	verifAssert(rf == want, "the script sees the same number")
}

// C15-H2: Go-side conversions agree with the in-language ones for numbers.
func VerifH_C15_agreement() {
	vm := New()
	x := verifNondetFloat64()
	vm.Set("v", x)
	v, _ := vm.Get("v")
	b, _ := v.ToBoolean()
	sb, _ := vm.Run("Boolean(v)")
	sbb, _ := sb.ToBoolean()
	verifCover("reached")
	verifAssert(b == sbb, "ToBoolean agrees with Boolean(v)")
	f, _ := v.ToFloat()
	sn, _ := vm.Run("Number(v)")
	snf, _ := sn.ToFloat()
	verifAssert(sameF64(f, snf) && sameF64(f, x), "ToFloat agrees with Number(v)")
	t, _ := vm.Run("typeof v")
	verifAssert(t.String() == "number" && v.IsNumber() && !v.IsString() && !v.IsBoolean() && !v.IsNull() && !v.IsUndefined() && !v.IsFunction(), "predicates agree with typeof")
}
