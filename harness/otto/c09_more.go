//go:build verif

package otto

// String.fromCharCode, concat, trim, split with a string separator and ASCII
// case mapping (ES5 15.5.3.2, 15.5.4.6/14/16/18/20).
func VerifH_C09_more() {
	vm := New()
	verifCover("reached")
	switch verifChoose(5) {
	case 0: // fromCharCode(x): ToUint16 of any double (|x| < 2^63 or non-finite)
		x := verifNondetFloat64()
		verifBitwiseDomain("&", x)
		vm.Set("x", x)
		v, ok := verifRun(vm, "String.fromCharCode(x).charCodeAt(0)")
		if ok {
			f, _ := v.ToFloat()
			want := uint16(refModPow2(mathBits(x), 16))
			verifAssertK(f == float64(want), "C09-lone-surrogate-unrepresentable", want >= 0xD800 && want <= 0xDFFF, "15.5.3.2 fromCharCode applies ToUint16")
		}
	case 1: // concat and length of two valid strings
		_, u := verifSubject(vm)
		m := verifChoose(3)
		t := verifNondetString(m)
		verifAssume(verifValidUTF8(t))
		vm.Set("t", t)
		tu := refUnits(t)
		v, ok := verifRun(vm, "s.concat(t)")
		if ok {
			want := append(append([]uint16{}, u...), tu...)
			verifAssert(unitsEqual(valueUnits(v), want), "15.5.4.6 concat")
		}
	case 2: // trim: white space and line terminators removed from both ends only
		n := verifChoose(verifParam("maxlen", 3) + 1)
		s := verifNondetString(n)
		verifAssume(verifValidUTF8(s))
		vm.Set("s", s)
		i, j := 0, len(s)
		for i < j {
			k := refWS(s, i)
			if k == 0 {
				break
			}
			i += k
		}
		for j > i {
			found := false
			for k := 1; k <= 3 && j-k >= i; k++ {
				if refWS(s, j-k) == k {
					j -= k
					found = true
					break
				}
			}
			if !found {
				break
			}
		}
		v, ok := verifRun(vm, "s.trim()")
		if ok {
			verifAssert(v.String() == s[i:j], "15.5.4.20 trim")
		}
	case 3: // split by a one-character ASCII separator
		n := verifChoose(verifParam("maxlen", 3) + 1)
		s := verifNondetString(n)
		for k := 0; k < n; k++ {
			verifAssume(s[k] < 0x80)
		}
		vm.Set("s", s)
		cnt := 0
		for k := 0; k < n; k++ {
			if s[k] == ',' {
				cnt++
			}
		}
		lim := verifNondetFloat64()
		vm.Set("lim", lim)
		useLim := verifNondetBool()
		script := "var parts = s.split(','); parts.length"
		if useLim {
			script = "var parts = s.split(',', lim); parts.length"
		}
		v, ok := verifRun(vm, script)
		if ok {
			f, _ := v.ToFloat()
			want := uint32(cnt + 1)
			if useLim {
				verifBitwiseDomain("&", lim)
				l := refModPow2(mathBits(lim), 32)
				if l < want {
					want = l
				}
			}
			verifAssert(f == float64(want), "15.5.4.14 split: number of pieces (limit by ToUint32)")
		}
	default: // ASCII case mapping
		n := verifChoose(verifParam("maxlen", 3) + 1)
		s := verifNondetString(n)
		for k := 0; k < n; k++ {
			verifAssume(s[k] < 0x80)
		}
		vm.Set("s", s)
		up := verifNondetBool()
		fn := "toLowerCase"
		if up {
			fn = "toUpperCase"
		}
		v, ok := verifRun(vm, "s."+fn+"()")
		if ok {
			want := make([]byte, n)
			for k := 0; k < n; k++ {
				c := s[k]
				if up && c >= 'a' && c <= 'z' {
					c -= 32
				} else if !up && c >= 'A' && c <= 'Z' {
					c += 32
				}
				want[k] = c
			}
			verifAssert(v.String() == string(want), "15.5.4.16/18 simple case mapping (ASCII)")
		}
	}
}
