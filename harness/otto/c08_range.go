//go:build verif

package otto

// refRelIndex: the ES5 "relative index" clamp used by slice/splice/substring…
//
//	rel = ToInteger(x); negativeIsZero: min(max(rel,0),len)
//	otherwise rel<0 ? max(len+rel,0) : min(rel,len)
func refRelIndex(x float64, length int64, negativeIsZero bool) int64 {
	rel := refToInteger(x)
	// length < 2^32: saturating rel at +-2^33 changes no outcome and makes the
	// rest exact integer arithmetic
	if rel > 8589934592 {
		rel = 8589934592
	}
	if rel < -8589934592 {
		rel = -8589934592
	}
	r := int64(rel)
	if negativeIsZero {
		if r < 0 {
			r = 0
		}
		if r > length {
			r = length
		}
		return r
	}
	if r < 0 {
		r += length
		if r < 0 {
			r = 0
		}
		return r
	}
	if r > length {
		r = length
	}
	return r
}

func VerifH_C08_rangeIndex() {
	x := verifNondetFloat64()
	length := int64(verifNondetUint32())
	neg0 := verifNondetBool()
	got := valueToRangeIndex(numV(x), length, neg0)
	verifCover("reached")
	verifAssert(got == refRelIndex(x, length, neg0), "relative index clamp (15.4.4.10 / 15.5.4.13 steps)")
	verifAssert(got >= 0 && got <= length, "range index within [0,len]")
}

func VerifH_C08_rangeStartEnd() {
	a := verifNondetFloat64()
	b := verifNondetFloat64()
	size := int64(verifNondetUint32())
	neg0 := verifNondetBool()
	n := verifChoose(3) // 1 arg, 2 args, 2nd undefined
	var args []Value
	switch n {
	case 0:
		args = []Value{numV(a)}
	case 1:
		args = []Value{numV(a), numV(b)}
	default:
		args = []Value{numV(a), Value{}}
	}
	start, end := rangeStartEnd(args, size, neg0)
	verifCover("reached")
	verifAssert(start == refRelIndex(a, size, neg0), "start")
	if n == 1 {
		verifAssert(end == refRelIndex(b, size, neg0), "end")
	} else {
		verifAssert(end == size, "end defaults to length")
	}
}
