//go:build verif

package otto

// C07-H3: enumeration (Object.keys, getOwnPropertyNames, for-in) after a short
// history of adds / deletes / redefinitions over two names on an object and
// its prototype, enumerability symbolic: insertion order, no duplicates, no
// deleted property, shadowed prototype properties listed once.
func VerifH_C07_enumeration() {
	vm := New()
	vm.Run("var proto = {}, o = Object.create(proto)")
	// abstract state: insertion-ordered own names of o with their enumerability
	type ent struct {
		name string
		e    bool
	}
	var own []ent
	find := func(n string) int {
		for i, x := range own {
			if x.name == n {
				return i
			}
		}
		return -1
	}
	protoHasP, protoPEnum := verifNondetBool(), verifNondetBool()
	if protoHasP {
		vm.Set("pe", protoPEnum)
		vm.Run("Object.defineProperty(proto, 'p', {value: 0, enumerable: pe, configurable: true, writable: true})")
	}
	steps := verifParam("steps", 3)
	for s := 0; s < steps; s++ {
		name := []string{"p", "q"}[verifChoose(2)]
		switch verifChoose(3) {
		case 0: // assignment (adds enumerable if absent, keeps position if present)
			vm.Run("o." + name + " = 1")
			if find(name) < 0 {
				own = append(own, ent{name, true})
			}
		case 1: // delete
			vm.Run("delete o." + name)
			if i := find(name); i >= 0 {
				own = append(own[:i:i], own[i+1:]...)
			}
		default: // defineProperty with symbolic enumerable
			e := verifNondetBool()
			vm.Set("en", e)
			vm.Run("Object.defineProperty(o, '" + name + "', {value: 2, enumerable: en, configurable: true, writable: true})")
			if i := find(name); i >= 0 {
				own[i].e = e
			} else {
				own = append(own, ent{name, e})
			}
		}
	}
	wantNames, wantKeys, wantForIn := "", "", ""
	join := func(a, b string) string {
		if a == "" {
			return b
		}
		return a + "," + b
	}
	for _, x := range own {
		wantNames = join(wantNames, x.name)
		if x.e {
			wantKeys = join(wantKeys, x.name)
			wantForIn = join(wantForIn, x.name)
		}
	}
	// for-in continues with enumerable prototype properties not shadowed by an own property (enumerable or not)
	if protoHasP && protoPEnum && find("p") < 0 {
		wantForIn = join(wantForIn, "p")
	}
	verifCover("reached")
	n, _ := verifRun(vm, "Object.getOwnPropertyNames(o).join(',')")
	k, _ := verifRun(vm, "Object.keys(o).join(',')")
	f, _ := verifRun(vm, "var seen = []; for (var key in o) seen.push(key); seen.join(',')")
	verifAssert(n.String() == wantNames, "15.2.3.4 getOwnPropertyNames: insertion order, no duplicates, nothing deleted")
	verifAssert(k.String() == wantKeys, "15.2.3.14 keys: enumerable own properties in order")
	verifAssert(f.String() == wantForIn, "12.6.4 for-in: own enumerable, then unshadowed enumerable inherited, each once")
}
