//go:build verif

package otto

func VerifH_C05_toInteger_float() {
	f := verifNondetFloat64()
	got := toIntegerFloat(numV(f))
	verifCover("reached")
	verifAssert(sameF64(got, refToInteger(f)), "ES5 9.4 ToInteger")
}

// ToInt32/ToUint32/ToUint16 of Values that hold Go integers (as produced by
// the Go bridge and by otto's own int-valued results).
func VerifH_C05_toInt32_intkinds() {
	var v Value
	var x int64
	switch verifChoose(9) {
	case 0:
		y := verifNondetInt8()
		v, x = Value{kind: valueNumber, value: y}, int64(y)
	case 1:
		y := verifNondetInt16()
		v, x = Value{kind: valueNumber, value: y}, int64(y)
	case 2:
		y := verifNondetInt32()
		v, x = Value{kind: valueNumber, value: y}, int64(y)
	case 3:
		y := verifNondetInt64()
		verifAssume(y >= -(1<<53) && y <= 1<<53)
		v, x = Value{kind: valueNumber, value: y}, y
	case 4:
		y := verifNondetInt()
		verifAssume(y >= -(1<<53) && y <= 1<<53)
		v, x = Value{kind: valueNumber, value: y}, int64(y)
	case 5:
		y := verifNondetUint8()
		v, x = Value{kind: valueNumber, value: y}, int64(y)
	case 6:
		y := verifNondetUint16()
		v, x = Value{kind: valueNumber, value: y}, int64(y)
	case 7:
		y := verifNondetUint32()
		v, x = Value{kind: valueNumber, value: y}, int64(y)
	default:
		y := verifNondetUint64()
		verifAssume(y <= 1<<53)
		v, x = Value{kind: valueNumber, value: y}, int64(y)
	}
	verifCover("reached")
	verifAssert(toInt32(v) == int32(uint32(uint64(x))), "ES5 9.5 ToInt32 on integer kinds")
	verifAssert(toUint32(v) == uint32(uint64(x)), "ES5 9.6 ToUint32 on integer kinds")
	verifAssert(toUint16(v) == uint16(uint64(x)), "ES5 9.7 ToUint16 on integer kinds")
	verifAssert(v.float64() == float64(x), "ES5 9.3 ToNumber on integer kinds")
}

// ToBoolean (ES5 9.2) for every primitive kind.
func VerifH_C05_toBoolean() {
	switch verifChoose(6) {
	case 0:
		verifAssert(!Value{}.bool(), "undefined is false")
	case 1:
		verifAssert(!Value{kind: valueNull}.bool(), "null is false")
	case 2:
		b := verifNondetBool()
		verifAssert(Value{kind: valueBoolean, value: b}.bool() == b, "boolean")
	case 3:
		f := verifNondetFloat64()
		want := !(f == 0 || f != f)
		verifAssert(numV(f).bool() == want, "number: false iff +0, -0, NaN")
	case 4:
		n := verifChoose(3)
		s := verifNondetString(n)
		verifAssert(Value{kind: valueString, value: s}.bool() == (n != 0), "string: false iff empty")
	default:
		x := verifNondetInt64()
		verifAssert(Value{kind: valueNumber, value: x}.bool() == (x != 0), "integer-kind number")
	}
	verifCover("reached")
}

// Operators on operands whose Value holds a Go integer (the result of a
// bitwise operator, a bridged Go int, a length): ES5 has only doubles, so every
// operator must behave exactly as on float64(x) - including -0 from negating
// 0 and no 32/64-bit wrap-around at the extremes.
func VerifH_C05_operators_intkinds() {
	vm := New()
	var xi int64
	expr := "x"
	switch verifChoose(6) {
	case 0:
		y := verifNondetInt32()
		vm.Set("x", y)
		xi = int64(y)
	case 1:
		y := verifNondetInt64()
		verifAssume(y >= -(1<<53) && y <= 1<<53)
		vm.Set("x", y)
		xi = y
	case 2:
		y := verifNondetUint32()
		vm.Set("x", y)
		xi = int64(y)
	case 3:
		y := verifNondetInt()
		verifAssume(y >= -(1<<53) && y <= 1<<53)
		vm.Set("x", y)
		xi = int64(y)
	case 4: // an int32-valued intermediate result
		y := verifNondetInt32()
		vm.Set("x", y)
		expr = "(x|0)"
		xi = int64(y)
	default: // a uint32-valued intermediate result
		y := verifNondetUint32()
		vm.Set("x", y)
		expr = "(x>>>0)"
		xi = int64(y)
	}
	x := float64(xi)
	verifCover("reached")
	switch verifChoose(6) {
	case 0:
		v, ok := verifRun(vm, "-"+expr)
		f, _ := v.ToFloat()
		verifAssert(ok && v.IsNumber() && sameF64(f, -x), "11.4.7 unary minus on an integer-valued operand (-0 for 0, no wrap-around)")
	case 1:
		v, ok := verifRun(vm, "+"+expr)
		f, _ := v.ToFloat()
		verifAssert(ok && v.IsNumber() && sameF64(f, x), "11.4.6 unary plus on an integer-valued operand")
	case 2:
		v, ok := verifRun(vm, expr+"+"+expr)
		f, _ := v.ToFloat()
		verifAssert(ok && v.IsNumber() && sameF64(f, x+x), "11.6.1 addition of integer-valued operands does not wrap")
	case 3:
		v, ok := verifRun(vm, expr+"-1")
		f, _ := v.ToFloat()
		verifAssert(ok && v.IsNumber() && sameF64(f, x-1), "11.6.2 subtraction on an integer-valued operand does not wrap")
	case 4:
		v, ok := verifRun(vm, "var t = "+expr+"; t++; t")
		f, _ := v.ToFloat()
		verifAssert(ok && v.IsNumber() && sameF64(f, x+1), "11.3.1 postfix increment on an integer-valued operand does not wrap")
	default:
		v, ok := verifRun(vm, "~"+expr)
		f, _ := v.ToFloat()
		verifAssert(ok && v.IsNumber() && f == float64(^int32(uint32(uint64(xi)))), "11.4.8 bitwise not on an integer-valued operand")
	}
}
