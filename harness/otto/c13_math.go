//go:build verif

package otto

import "math"

// ES5 15.8.2.15: the Number value closest to x that is an integer, ties
// toward +Infinity; -0 for -0 and for -0.5 <= x < 0.
func refRound(x float64) float64 {
	if x != x || x > math.MaxFloat64 || x < -math.MaxFloat64 {
		return x
	}
	r := math.Floor(x)
	if x-r >= 0.5 { // exact: x - floor(x) has no rounding error
		r = r + 1
	}
	if r == 0 && isNegZeroOrNeg(x) {
		return math.Copysign(0, -1)
	}
	return r
}

func VerifH_C13_round() {
	x := verifNondetFloat64()
	got := builtinMathRound(verifCall(numV(x))).float64()
	verifCover("reached")
	verifAssertK(sameF64(got, refRound(x)), "C13-round-floor-plus-half",
		x == 0.49999999999999994 || (math.Abs(x) >= 4503599627370496 && math.Abs(x) < 9007199254740992),
		"ES5 15.8.2.15 Math.round")
}

func VerifH_C13_unary() {
	x := verifNondetFloat64()
	c := verifCall(numV(x))
	switch verifChoose(5) {
	case 0:
		verifAssert(sameF64(builtinMathAbs(c).float64(), math.Float64frombits(math.Float64bits(x)&^(1<<63))), "abs clears the sign bit")
	case 1:
		g := builtinMathFloor(c).float64()
		verifAssert(sameF64(g, math.Floor(x)), "floor")
	case 2:
		g := builtinMathCeil(c).float64()
		verifAssert(sameF64(g, math.Ceil(x)), "ceil")
	case 3:
		g := builtinMathSqrt(c).float64()
		verifAssert(sameF64(g, math.Sqrt(x)), "sqrt is the correctly rounded IEEE square root")
	default:
		g := builtinMathTrunc(c).float64()
		verifAssert(sameF64(g, math.Trunc(x)), "trunc")
	}
	verifCover("reached")
}

func refMax(args []float64) float64 {
	r := math.Inf(-1)
	for _, a := range args {
		if a != a {
			return a
		}
	}
	for _, a := range args {
		if a > r || (a == 0 && r == 0 && !isNegZeroOrNeg(a)) {
			r = a
		}
	}
	return r
}

func refMin(args []float64) float64 {
	r := math.Inf(1)
	for _, a := range args {
		if a != a {
			return a
		}
	}
	for _, a := range args {
		if a < r || (a == 0 && r == 0 && isNegZeroOrNeg(a)) {
			r = a
		}
	}
	return r
}

func VerifH_C13_maxmin() {
	n := verifChoose(4)
	fs := make([]float64, n)
	vs := make([]Value, n)
	for i := range fs {
		fs[i] = verifNondetFloat64()
		vs[i] = numV(fs[i])
	}
	verifCover("reached")
	verifAssert(sameF64(builtinMathMax(verifCall(vs...)).float64(), refMax(fs)), "ES5 15.8.2.11 Math.max")
	verifAssert(sameF64(builtinMathMin(verifCall(vs...)).float64(), refMin(fs)), "ES5 15.8.2.12 Math.min")
}

// ES5 15.8.2.13 special cells of Math.pow (those decided without computing a
// general power).
func VerifH_C13_pow_cells() {
	x := verifNondetFloat64()
	y := verifNondetFloat64()
	inf := math.Inf(1)
	cell := verifChoose(9)
	var want float64
	switch cell {
	case 0: // y is NaN
		verifAssume(y != y)
		want = math.NaN()
	case 1: // y is +-0 (even if x is NaN)
		verifAssume(y == 0)
		want = 1
	case 2: // x is NaN and y nonzero
		verifAssume(x != x && y != 0 && y == y)
		want = math.NaN()
	case 3: // |x| > 1, y = +-inf
		verifAssume(math.Abs(x) > 1 && (y == inf || y == -inf))
		if y > 0 {
			want = inf
		} else {
			want = 0
		}
	case 4: // |x| == 1, y = +-inf  => NaN
		verifAssume(math.Abs(x) == 1 && (y == inf || y == -inf))
		want = math.NaN()
	case 5: // |x| < 1, y = +-inf
		verifAssume(math.Abs(x) < 1 && (y == inf || y == -inf))
		if y > 0 {
			want = 0
		} else {
			want = inf
		}
	case 6: // x = +inf
		verifAssume(x == inf && y == y && y != 0)
		if y > 0 {
			want = inf
		} else {
			want = 0
		}
	case 7: // x = +0
		verifAssume(x == 0 && !isNegZeroOrNeg(x) && y == y && y != 0)
		if y > 0 {
			want = 0
		} else {
			want = inf
		}
	default: // x < 0 finite, y finite non-integer => NaN
		verifAssume(x < 0 && x >= -math.MaxFloat64 && y == y && math.Abs(y) <= math.MaxFloat64 && y != math.Floor(y))
		want = math.NaN()
	}
	got := builtinMathPow(verifCall(numV(x), numV(y))).float64()
	verifCover("reached")
	verifAssertK(sameF64(got, want), "C13-pow-1-nan", cell == 0 && x == 1, "ES5 15.8.2.13 Math.pow special case")
}

// isNaN / isFinite (15.1.2.4-5) on every double, and through ToNumber on the
// other primitive kinds; the value properties NaN / Infinity / undefined of the
// global object cannot be overwritten (15.1.1).
func VerifH_C13_global_predicates() {
	vm := New()
	x := verifNondetFloat64()
	vm.Set("x", x)
	verifCover("reached")
	switch verifChoose(3) {
	case 0:
		v, ok := verifRun(vm, "[isNaN(x), isFinite(x), isNaN(-x), isFinite(-x)]")
		if ok {
			o := v.Object()
			a, _ := o.Get("0")
			b, _ := o.Get("1")
			c, _ := o.Get("2")
			d, _ := o.Get("3")
			ab, _ := a.ToBoolean()
			bb, _ := b.ToBoolean()
			cb, _ := c.ToBoolean()
			db, _ := d.ToBoolean()
			fin := x == x && math.Abs(x) <= math.MaxFloat64
			verifAssert(ab == (x != x) && cb == (x != x), "15.1.2.4 isNaN")
			verifAssert(bb == fin && db == fin, "15.1.2.5 isFinite")
		}
	case 1:
		v, ok := verifRun(vm, "[isNaN(undefined), isNaN(null), isNaN(true), isNaN(''), isNaN(' '), isNaN('x'), isNaN({}), isNaN([]), isNaN([7]), isFinite(null), isFinite(undefined), isFinite('Infinity'), isFinite('1e400')].join()")
		if ok {
			verifAssert(v.String() == "true,false,false,false,false,true,true,false,false,true,false,false,false", "isNaN / isFinite apply ToNumber first")
		}
	default:
		v, ok := verifRun(vm, "NaN = x; Infinity = x; undefined = x; [NaN !== NaN, Infinity === 1/0, undefined === void 0, delete NaN, delete Infinity].join()")
		if ok {
			verifAssert(v.String() == "true,true,true,false,false", "15.1.1: NaN, Infinity and undefined are read-only, non-configurable")
		}
	}
}

// Math.max / Math.min through the public API with object arguments: ToNumber is
// applied to every argument, in order, whatever the earlier ones were (a NaN
// does not cut the conversions short), and the result is the ES5 maximum.
func VerifH_C13_maxmin_coercion() {
	vm := New()
	n := 2 + verifChoose(2)
	fs := make([]float64, n)
	args := ""
	want := ""
	for i := range fs {
		fs[i] = verifNondetFloat64()
		vm.Set("x"+verifItoa(int64(i)), fs[i])
		if i > 0 {
			args += ", "
			want += ","
		}
		args += "{valueOf: function () { log.push(" + verifItoa(int64(i)) + "); return x" + verifItoa(int64(i)) + " }}"
		want += verifItoa(int64(i))
	}
	isMax := verifNondetBool()
	fn := "Math.min"
	if isMax {
		fn = "Math.max"
	}
	v, ok := verifRun(vm, "var log = []; var r = "+fn+"("+args+"); log.join()")
	verifCover("reached")
	verifAssert(ok, "does not throw")
	if !ok {
		return
	}
	verifAssert(v.String() == want, "15.8.2.11/12: every argument is converted, in order")
	r, _ := vm.Get("r")
	rf, _ := r.ToFloat()
	if isMax {
		verifAssert(sameF64(rf, refMax(fs)), "15.8.2.11 Math.max")
	} else {
		verifAssert(sameF64(rf, refMin(fs)), "15.8.2.12 Math.min")
	}
}
