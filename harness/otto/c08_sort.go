//go:build verif

package otto

import "fmt"

// C08-H6: Array.prototype.sort (ES5 15.4.4.11) on arrays of 0..n elements:
//   mode 0: numbers (any non-NaN doubles) with a consistent three-way comparator: ascending, a permutation;
//   mode 1: one-character ASCII strings, an undefined element and a hole, default comparator:
//           code-unit order, undefined after every value, the hole last and still a hole;
//   mode 2: an arbitrary (inconsistent) comparator - a host function returning any double on
//           every call: the behaviour is implementation-defined, but no Go panic escapes, the
//           call returns, and the elements are still a permutation of the input.
func VerifH_C08_sort() {
	vm := New()
	mode := verifParam("mode", -1)
	if mode < 0 {
		mode = verifChoose(3)
	}
	n := verifChoose(verifParam("maxn", 3) + 1)
	verifCover("reached")
	switch mode {
	case 0, 2:
		xs := make([]float64, n)
		src := "var a = ["
		for i := range xs {
			xs[i] = verifNondetFloat64()
			verifAssume(xs[i] == xs[i])
			name := "x" + verifItoa(int64(i))
			vm.Set(name, xs[i])
			if i > 0 {
				src += ", "
			}
			src += name
		}
		src += "]; "
		if mode == 0 {
			src += "a.sort(function (p, q) { return p < q ? -1 : p > q ? 1 : 0 })"
		} else {
			vm.Set("cmp", func(call FunctionCall) Value { return numV(verifNondetFloat64()) })
			src += "a.sort(cmp)"
		}
		var err error
		kind, val := verifCatch(func() { _, err = vm.Run(src) })
		if kind != verifNormal {
			verifLog(fmt.Sprintf("escaped: %v", val))
		}
		verifAssert(kind == verifNormal && err == nil, "sort returns: no Go panic, no exception")
		if kind != verifNormal || err != nil {
			return
		}
		got := make([]float64, n)
		l, _ := vm.Run("a.length")
		lf, _ := l.ToFloat()
		verifAssert(lf == float64(n), "length unchanged")
		for i := range got {
			e, _ := vm.Run("a[" + verifItoa(int64(i)) + "]")
			verifAssert(e.IsNumber(), "every element is still a number")
			got[i], _ = e.ToFloat()
		}
		// permutation: every input value occurs as often in the output (by ==)
		for i := range xs {
			cin, cout := 0, 0
			for j := range xs {
				if xs[j] == xs[i] {
					cin++
				}
				if got[j] == xs[i] {
					cout++
				}
			}
			verifAssert(cin == cout, "the result is a permutation of the input")
		}
		if mode == 0 {
			for i := 0; i+1 < n; i++ {
				verifAssert(got[i] <= got[i+1], "15.4.4.11: ascending under a consistent comparator")
			}
		}
	default:
		s := verifNondetString(n)
		src := "var a = ["
		for i := 0; i < n; i++ {
			verifAssume(s[i] >= 0x20 && s[i] < 0x7f)
			name := "c" + verifItoa(int64(i))
			vm.Set(name, s[i:i+1])
			src += name + ", "
		}
		src += "undefined, , ]; a.length = " + verifItoa(int64(n+2)) + "; a.sort()"
		var err error
		kind, _ := verifCatch(func() { _, err = vm.Run(src) })
		verifAssert(kind == verifNormal && err == nil, "sort returns: no Go panic, no exception")
		if kind != verifNormal || err != nil {
			return
		}
		prev := byte(0)
		for i := 0; i < n; i++ {
			e, _ := vm.Run("a[" + verifItoa(int64(i)) + "]")
			es := e.String()
			verifAssert(e.IsString() && len(es) == 1, "strings sort before undefined")
			if len(es) == 1 {
				verifAssert(es[0] >= prev, "15.4.4.11: default comparison is by code unit")
				prev = es[0]
				cin, cout := 0, 0
				for j := 0; j < n; j++ {
					if s[j] == es[0] {
						cin++
					}
					o, _ := vm.Run("a[" + verifItoa(int64(j)) + "]")
					if os := o.String(); len(os) == 1 && os[0] == es[0] {
						cout++
					}
				}
				verifAssert(cin == cout, "the result is a permutation of the input")
			}
		}
		tail, _ := vm.Run("[a.length, " + verifItoa(int64(n)) + " in a, a[" + verifItoa(int64(n)) + "] === undefined, " + verifItoa(int64(n+1)) + " in a].join()")
		verifAssert(tail.String() == verifItoa(int64(n+2))+",true,true,false", "undefined sorts after every value, the hole comes last and stays a hole")
	}
}
