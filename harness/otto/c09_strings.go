//go:build verif

package otto

import (
	"math"
	"unicode/utf16"
)

// verifValidUTF8 is the validity predicate assumed of subjects (RFC 3629
// well-formed sequences; executed symbolically, so every byte pattern of every
// shape within the length is covered).
func verifValidUTF8(s string) bool {
	i := 0
	for i < len(s) {
		c := s[i]
		switch {
		case c < 0x80:
			i++
		case c >= 0xC2 && c <= 0xDF:
			if i+1 >= len(s) || s[i+1]&0xC0 != 0x80 {
				return false
			}
			i += 2
		case c >= 0xE0 && c <= 0xEF:
			if i+2 >= len(s) || s[i+1]&0xC0 != 0x80 || s[i+2]&0xC0 != 0x80 {
				return false
			}
			if c == 0xE0 && s[i+1] < 0xA0 {
				return false
			}
			if c == 0xED && s[i+1] > 0x9F {
				return false
			}
			i += 3
		case c >= 0xF0 && c <= 0xF4:
			if i+3 >= len(s) || s[i+1]&0xC0 != 0x80 || s[i+2]&0xC0 != 0x80 || s[i+3]&0xC0 != 0x80 {
				return false
			}
			if c == 0xF0 && s[i+1] < 0x90 {
				return false
			}
			if c == 0xF4 && s[i+1] > 0x8F {
				return false
			}
			i += 4
		default:
			return false
		}
	}
	return true
}

// refUnits decodes valid UTF-8 to UTF-16 code units, independently of otto.
func refUnits(s string) []uint16 {
	var out []uint16
	i := 0
	for i < len(s) {
		c := s[i]
		switch {
		case c < 0x80:
			out = append(out, uint16(c))
			i++
		case c < 0xE0:
			out = append(out, uint16(c&0x1F)<<6|uint16(s[i+1]&0x3F))
			i += 2
		case c < 0xF0:
			out = append(out, uint16(c&0x0F)<<12|uint16(s[i+1]&0x3F)<<6|uint16(s[i+2]&0x3F))
			i += 3
		default:
			cp := uint32(c&0x07)<<18 | uint32(s[i+1]&0x3F)<<12 | uint32(s[i+2]&0x3F)<<6 | uint32(s[i+3]&0x3F)
			cp -= 0x10000
			out = append(out, 0xD800+uint16(cp>>10), 0xDC00+uint16(cp&0x3FF))
			i += 4
		}
	}
	return out
}

func unitsEqual(a, b []uint16) bool {
	if len(a) != len(b) {
		return false
	}
	for i := range a {
		if a[i] != b[i] {
			return false
		}
	}
	return true
}

// hasLoneSurrogate: the expected result cannot be represented by otto's UTF-8
// strings at all (recorded representation limit).
func hasLoneSurrogate(u []uint16) bool {
	for i := 0; i < len(u); i++ {
		if u[i] >= 0xD800 && u[i] <= 0xDBFF {
			if i+1 < len(u) && u[i+1] >= 0xDC00 && u[i+1] <= 0xDFFF {
				i++
				continue
			}
			return true
		}
		if u[i] >= 0xDC00 && u[i] <= 0xDFFF {
			return true
		}
	}
	return false
}

func valueUnits(v Value) []uint16 {
	return utf16.Encode([]rune(v.String()))
}

// clampInt: ToInteger(x) clamped to [-16, 16] as an int (lengths are <= 8).
func clampInt(x float64) int {
	r := refToInteger(x)
	if r > 16 {
		return 16
	}
	if r < -16 {
		return -16
	}
	return int(r)
}

func verifMin(a, b int) int {
	if a < b {
		return a
	}
	return b
}

func verifMax(a, b int) int {
	if a > b {
		return a
	}
	return b
}

func verifSubject(vm *Otto) (string, []uint16) {
	if verifParam("astral", 0) == 2 {
		// any single astral code point: 4 symbolic bytes forming valid UTF-8
		s := verifNondetString(4)
		verifAssume(s[0] >= 0xF0 && verifValidUTF8(s))
		vm.Set("s", s)
		return s, refUnits(s)
	}
	if verifParam("astral", 0) == 3 {
		// the fixed astral character followed by exactly one symbolic ASCII byte
		suf := verifNondetString(1)
		verifAssume(suf[0] < 0x80)
		s := "\U0001F600" + suf
		vm.Set("s", s)
		return s, refUnits(s)
	}
	if verifParam("astral", 0) == 1 {
		// 0..1 symbolic ASCII bytes, a fixed astral character (a surrogate pair
		// in UTF-16), 0..1 symbolic ASCII bytes
		pre := verifNondetString(verifChoose(2))
		suf := verifNondetString(verifChoose(2))
		for i := 0; i < len(pre); i++ {
			verifAssume(pre[i] < 0x80)
		}
		for i := 0; i < len(suf); i++ {
			verifAssume(suf[i] < 0x80)
		}
		s := pre + "\U0001F600" + suf
		vm.Set("s", s)
		return s, refUnits(s)
	}
	n := verifChoose(verifParam("maxlen", 3) + 1)
	s := verifNondetString(n)
	verifAssume(verifValidUTF8(s))
	vm.Set("s", s)
	return s, refUnits(s)
}

func verifRun(vm *Otto, script string) (Value, bool) {
	var v Value
	var err error
	kind, _ := verifCatch(func() { v, err = vm.Run(script) })
	verifAssert(kind == verifNormal, "no Go panic escapes Run: "+script)
	return v, kind == verifNormal && err == nil
}

func VerifH_C09_charAt() {
	vm := New()
	_, u := verifSubject(vm)
	p := verifNondetFloat64()
	vm.Set("p", p)
	pos := clampInt(p)
	v, ok := verifRun(vm, "s.charAt(p)")
	verifCover("reached")
	verifAssert(ok, "charAt does not throw")
	if !ok {
		return
	}
	var want []uint16
	if pos >= 0 && pos < len(u) {
		want = u[pos : pos+1]
	}
	verifAssertK(unitsEqual(valueUnits(v), want), "C09-lone-surrogate-unrepresentable", hasLoneSurrogate(want), "ES5 15.5.4.4 charAt")
	v2, ok2 := verifRun(vm, "s.charCodeAt(p)")
	if ok2 {
		f, _ := v2.ToFloat()
		if pos >= 0 && pos < len(u) {
			verifAssert(f == float64(u[pos]), "ES5 15.5.4.5 charCodeAt")
		} else {
			verifAssert(f != f, "charCodeAt out of range is NaN")
		}
	}
	v3, ok3 := verifRun(vm, "s.length")
	if ok3 {
		f, _ := v3.ToFloat()
		verifAssert(f == float64(len(u)), "length counts UTF-16 code units")
	}
}

func verifNonASCII(s string) bool {
	for i := 0; i < len(s); i++ {
		if s[i] >= 0x80 {
			return true
		}
	}
	return false
}

func VerifH_C09_indexOf() {
	vm := New()
	s, u := verifSubject(vm)
	m := verifChoose(2)
	t := verifNondetString(m)
	verifAssume(verifValidUTF8(t))
	tu := refUnits(t)
	vm.Set("t", t)
	p := verifNondetFloat64()
	vm.Set("p", p)
	verifCover("reached")
	match := func(k int) bool {
		if k+len(tu) > len(u) {
			return false
		}
		for j := range tu {
			if u[k+j] != tu[j] {
				return false
			}
		}
		return true
	}
	if verifChoose(2) == 0 {
		start := verifMin(verifMax(clampInt(p), 0), len(u))
		want := -1
		for k := start; k <= len(u); k++ {
			if match(k) {
				want = k
				break
			}
		}
		v, ok := verifRun(vm, "s.indexOf(t, p)")
		if ok {
			f, _ := v.ToFloat()
			verifAssertK(f == float64(want), "C09-indexof-byte-offsets", verifNonASCII(s), "ES5 15.5.4.7 indexOf")
		}
	} else {
		var start int
		if p != p {
			start = len(u)
		} else {
			start = verifMin(verifMax(clampInt(p), 0), len(u))
		}
		want := -1
		for k := start; k >= 0; k-- {
			if match(k) {
				want = k
				break
			}
		}
		v, ok := verifRun(vm, "s.lastIndexOf(t, p)")
		if ok {
			f, _ := v.ToFloat()
			verifAssertK(f == float64(want), "C09-indexof-byte-offsets", verifNonASCII(s), "ES5 15.5.4.8 lastIndexOf")
		}
	}
}

func VerifH_C09_slices() {
	vm := New()
	_, u := verifSubject(vm)
	a := verifNondetFloat64()
	b := verifNondetFloat64()
	vm.Set("a", a)
	vm.Set("b", b)
	bUndef := verifNondetBool()
	if bUndef {
		vm.Set("b", Value{})
	}
	n := len(u)
	ia, ib := clampInt(a), clampInt(b)
	verifCover("reached")
	var want []uint16
	var script, tag string
	switch verifChoose(3) {
	case 0:
		from := ia
		if from < 0 {
			from = verifMax(n+from, 0)
		} else {
			from = verifMin(from, n)
		}
		to := n
		if !bUndef {
			to = ib
			if to < 0 {
				to = verifMax(n+to, 0)
			} else {
				to = verifMin(to, n)
			}
		}
		if to > from {
			want = u[from:to]
		}
		script, tag = "s.slice(a, b)", "ES5 15.5.4.13 slice"
	case 1:
		from := verifMin(verifMax(ia, 0), n)
		to := n
		if !bUndef {
			to = verifMin(verifMax(ib, 0), n)
		}
		if from > to {
			from, to = to, from
		}
		want = u[from:to]
		script, tag = "s.substring(a, b)", "ES5 15.5.4.15 substring"
	default:
		from := ia
		if from < 0 {
			from = verifMax(n+from, 0)
		}
		l := 16
		if !bUndef {
			l = ib
		}
		l = verifMin(verifMax(l, 0), n-from)
		if l > 0 {
			want = u[from : from+l]
		}
		script, tag = "s.substr(a, b)", "ES5 B.2.3 substr"
	}
	v, ok := verifRun(vm, script)
	verifAssert(ok, script+" does not throw")
	if ok {
		verifAssertK(unitsEqual(valueUnits(v), want), "C09-lone-surrogate-unrepresentable", hasLoneSurrogate(want), tag)
	}
}

var _ = math.NaN
