//go:build verif

package otto

import "math"

const refMsPerDay = 86400000

func refFloorDiv(a, b int64) int64 {
	q := a / b
	if (a%b != 0) && ((a < 0) != (b < 0)) {
		q--
	}
	return q
}

func refMod(a, b int64) int64 { return a - b*refFloorDiv(a, b) }

// DayFromYear(y), ES5 15.9.1.3.
func refDayFromYear(y int64) int64 {
	return 365*(y-1970) + refFloorDiv(y-1969, 4) - refFloorDiv(y-1901, 100) + refFloorDiv(y-1601, 400)
}

func refInLeapYear(y int64) bool {
	return (y%4 == 0 && y%100 != 0) || y%400 == 0
}

// Chosen days (number of days since the epoch): era, century, leap-day, year
// and month boundaries on both sides of 1970 and the two ends of the ES5 range.
var verifDays = []int64{
	0, -1, 1, 58, 59, 365, 366, 789, 790, 10956, 10957, 11016, 11017, 11323, 19357, 19358,
	-25509, -25508, -25567, -25568, -141427, -141428, -719162, -719163, -719528, -719529,
	2932896, 99999999, 100000000, -99999999, -100000000,
}

func verifDateField(vm *Otto, script string) (int64, bool) {
	v, ok := verifRun(vm, script)
	if !ok {
		return 0, false
	}
	f, _ := v.ToFloat()
	return int64(f), f == float64(int64(f))
}

// An invalid date stays invalid under every accessor.
func VerifH_C12_invalid() {
	vm := New()
	x := verifNondetFloat64()
	verifAssume(x != x || math.Abs(x) > math.MaxFloat64)
	vm.Set("t", x)
	acc := []string{"getTime", "valueOf", "getUTCFullYear", "getUTCMonth", "getUTCDate", "getUTCDay", "getUTCHours", "getUTCMinutes", "getUTCSeconds", "getUTCMilliseconds", "getFullYear", "getMonth", "getDate", "getDay", "getHours", "getMinutes", "getSeconds", "getMilliseconds", "getTimezoneOffset"}
	a := acc[verifChoose(len(acc))]
	v, ok := verifRun(vm, "new Date(t)."+a+"()")
	verifCover("reached")
	verifAssert(ok, "accessor of an invalid date does not throw")
	if ok {
		f, _ := v.ToFloat()
		verifAssert(f != f, "15.9.5: accessors of an invalid date return NaN")
	}
}

// NaN propagation in the composing forms (15.9.4.3 Date.UTC, 15.9.3.1 the
// multi-argument constructor, 15.9.5.x setters): one field is NaN or an
// infinity, the result is an invalid date.
func VerifH_C12_nan_fields() {
	vm := New()
	x := verifNondetFloat64()
	verifAssume(x != x || math.Abs(x) > math.MaxFloat64)
	vm.Set("x", x)
	fields := []string{"2000", "1", "2", "3", "4", "5", "6"}
	k := verifChoose(7)
	fields[k] = "x"
	args := ""
	for i, f := range fields {
		if i > 0 {
			args += ", "
		}
		args += f
	}
	var script string
	switch verifChoose(3) {
	case 0:
		script = "Date.UTC(" + args + ")"
	case 1:
		script = "new Date(" + args + ").getTime()"
	default:
		setters := []string{"setUTCFullYear", "setUTCMonth", "setUTCDate", "setUTCHours", "setUTCMinutes", "setUTCSeconds", "setUTCMilliseconds"}
		script = "var d = new Date(0); d." + setters[k] + "(x); d.getTime()"
	}
	verifLog(script)
	v, ok := verifRun(vm, script)
	verifCover("reached")
	verifAssert(ok, "does not throw")
	if ok {
		f, _ := v.ToFloat()
		verifAssert(f != f, "a NaN or infinite field gives an invalid date (NaN time value)")
	}
}

// Field normalisation of Date.UTC and the multi-argument constructor (ES5
// 15.9.4.3 / 15.9.3.1 steps 1-8): every field goes through ToInteger first, and
// a year whose INTEGER value lies in 0..99 means 1900 + year. Metamorphic form:
// the call on the raw fields must equal the call on the normalised fields. The
// calendar itself (Go's time.Date) is an uninterpreted function of its fields in
// the engine, so the two sides agree iff otto hands it the same fields; the
// native replay runs the real one.
func VerifH_C12_field_normalisation() {
	vm := New()
	n := 2 + verifChoose(6)
	k := verifChoose(n) // the field that is any double; the others are fixed integers
	fixed := []float64{1987, 5, 17, 13, 45, 59, 123}
	raw, norm := "", ""
	for i := 0; i < n; i++ {
		f := fixed[i]
		if i == k {
			f = verifNondetFloat64()
			verifAssume(f == f && math.Abs(f) < 9007199254740992.0)
		}
		g := refToInteger(f)
		if i == 0 && g >= 0 && g <= 99 {
			g += 1900
		}
		vm.Set("f"+verifItoa(int64(i)), f)
		vm.Set("g"+verifItoa(int64(i)), g)
		if i > 0 {
			raw += ", "
			norm += ", "
		}
		raw += "f" + verifItoa(int64(i))
		norm += "g" + verifItoa(int64(i))
	}
	// (the multi-argument constructor runs the same newDateTime; building the Date
	// object afterwards goes through time.Unix, which no solver here decides)
	script := "[Date.UTC(" + raw + "), Date.UTC(" + norm + ")]"
	verifLog(script)
	v, ok := verifRun(vm, script)
	verifCover("reached")
	verifAssert(ok, "does not throw")
	if !ok {
		return
	}
	o := v.Object()
	a, _ := o.Get("0")
	b, _ := o.Get("1")
	af, _ := a.ToFloat()
	bf, _ := b.ToFloat()
	verifAssert(sameF64(af, bf), "15.9.4.3: fields are ToInteger'd, then a year in 0..99 means 1900 + year")
}

// TimeClip (15.9.1.14) where a time value enters a Date object: the one-argument
// constructor, setTime and Date.UTC with the value in its millisecond field, for any double: NaN beyond +-8.64e15 ms (and for NaN /
// the infinities), otherwise the integer part, never -0.
func VerifH_C12_timeclip() {
	vm := New()
	t := verifNondetFloat64()
	vm.Set("t", t)
	script := "new Date(t).getTime()"
	switch verifChoose(3) {
	case 1:
		script = "var d = new Date(0); var r = d.setTime(t); [r === d.getTime() || (r !== r && d.getTime() !== d.getTime()), d.getTime()][1]"
	case 2: // the millisecond field alone carries the time value (any magnitude is a valid field)
		verifAssume(t == t && math.Abs(t) <= math.MaxFloat64)
		script = "Date.UTC(1970, 0, 1, 0, 0, 0, t)"
	}
	v, ok := verifRun(vm, script)
	verifCover("reached")
	verifAssert(ok, "does not throw")
	if !ok {
		return
	}
	f, _ := v.ToFloat()
	if t != t || math.Abs(t) > 8.64e15 {
		verifAssert(f != f, "15.9.1.14 TimeClip: a time value beyond 8.64e15 ms is NaN")
	} else {
		want := refToInteger(t) + 0
		verifAssert(sameF64(f, want), "15.9.1.14 TimeClip: ToInteger of the time value (+0 for -0)")
	}
}
