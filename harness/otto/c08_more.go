//go:build verif

package otto

// Array.prototype.splice (ES5 15.4.4.12) on a 5-element array with start and
// deleteCount any double, and the callback protocol of the iteration methods
// (15.4.4.16-22): (value, numeric index, object), holes skipped, order.
func VerifH_C08_splice_callbacks() {
	vm := New()
	which := verifParam("case", -1)
	if which < 0 {
		which = verifChoose(3)
	}
	verifCover("reached")
	switch which {
	case 0:
		vm.Run("var a = [10, 20, 30, 40, 50]")
		p, q := verifNondetFloat64(), verifNondetFloat64()
		vm.Set("p", p)
		vm.Set("q", q)
		qUndef := false // splice(start) alone: ES5's letter (delete 0) and every engine (delete to the end) differ; not asserted
		n := 5
		start := clampInt(p)
		if start < 0 {
			start = verifMax(n+start, 0)
		} else {
			start = verifMin(start, n)
		}
		del := n - start
		script := "var r = a.splice(p); [r.length, a.length, r.length ? r[0] : -1, a.length ? a[a.length-1] : -1].join('|')"
		explicitUndef := verifNondetBool() // splice(p, undefined, 'x'): ToInteger(undefined) = 0 elements deleted
		if explicitUndef {
			vm.Set("q", Value{})
		}
		if !qUndef {
			del = verifMin(verifMax(clampInt(q), 0), n-start)
			if explicitUndef {
				del = 0
			}
			script = "var r = a.splice(p, q, 'x'); [r.length, a.length, r.length ? r[0] : -1, a.indexOf('x')].join('|')"
		}
		v, ok := verifRun(vm, script)
		if !ok {
			return
		}
		elems := []string{"10", "20", "30", "40", "50"}
		first := "-1"
		if del > 0 {
			first = elems[start]
		}
		var want string
		if qUndef {
			last := "-1"
			if start > 0 {
				last = elems[start-1]
			}
			want = verifItoa(int64(del)) + "|" + verifItoa(int64(n-del)) + "|" + first + "|" + last
		} else {
			want = verifItoa(int64(del)) + "|" + verifItoa(int64(n-del+1)) + "|" + first + "|" + verifItoa(int64(start))
		}
		verifAssert(v.String() == want, "ES5 15.4.4.12 splice: removed count, new length, first removed element, insertion point")
	case 1: // callback arguments and hole skipping
		m := []string{"forEach", "map", "filter", "every", "some"}[verifChoose(5)]
		ret := verifNondetBool()
		vm.Set("ret", ret)
		v, ok := verifRun(vm, "var a = [10, , 30], log = []; a."+m+"(function (v, i, o) { log.push(typeof i + ':' + i + ':' + v + ':' + (o === a)); return ret }); log.join(',')")
		if !ok {
			return
		}
		want := "number:0:10:true,number:2:30:true"
		if (m == "every" && !ret) || (m == "some" && ret) {
			want = "number:0:10:true"
		}
		verifAssert(v.String() == want, "15.4.4.16-20: callback gets (value, numeric index, object); holes skipped; early exit of every/some")
	default: // reduce / reduceRight: order, index type, initial value handling
		right := verifNondetBool()
		withInit := verifNondetBool()
		m := "reduce"
		if right {
			m = "reduceRight"
		}
		x := verifNondetFloat64()
		vm.Set("x", x)
		script := "var a = [1, , 3], log = []; var r = a." + m + "(function (acc, v, i, o) { log.push(typeof i + ':' + i + ':' + v); return acc + v }"
		if withInit {
			script += ", x"
		}
		script += "); log.join(',')"
		v, ok := verifRun(vm, script)
		if !ok {
			return
		}
		var want string
		switch {
		case !right && withInit:
			want = "number:0:1,number:2:3"
		case !right:
			want = "number:2:3"
		case withInit:
			want = "number:2:3,number:0:1"
		default:
			want = "number:0:1"
		}
		verifAssert(v.String() == want, "15.4.4.21/22: reduce order, numeric index, holes skipped, first element as initial value")
		r, _ := vm.Get("r")
		rf, _ := r.ToFloat()
		if withInit {
			verifAssert(sameF64(rf, x+float64(map[bool]int{false: 1, true: 3}[right])+float64(map[bool]int{false: 3, true: 1}[right])) || rf != rf, "reduce result")
		} else {
			verifAssert(rf == 4, "reduce result without an initial value")
		}
	}
}
