//go:build verif

package otto

// C17: Copy() gives an equivalent runtime (same observations) that is fully
// independent (a mutation on either side is invisible on the other), for a
// heap with closures (function, with and catch scopes), prototype chains,
// accessors, bound functions (bound this and bound object arguments), an
// arguments object and frozen objects, whose numeric content is symbolic.
const verifCopySetup = `
var base = {inherited: x0};
var o = Object.create(base); o.a = x1; o.nested = {deep: x2, list: [x0, x1, , x2]};
Object.defineProperty(o, 'acc', {get: function(){ return this.a + 1 }, set: function(v){ this.a = v }, enumerable: false, configurable: true});
var counter = (function(){ var n = x0; return {inc: function(){ n = n + 1; return n }, get: function(){ return n }} })();
function keep(){ return arguments }
var args = keep(x1, x2);
var bound = function(p, q){ return this.a + p + q }.bind(o, x2);
var frozen = Object.freeze({f: x1});
Array.prototype.extra = function(){ return x0 };
var mapped = (function(a, b){ return {args: arguments, setA: function(v){ a = v }, getA: function(){ return a }} })(x1, x2);
function shadow(arguments){ return function(){ return arguments } }
var sh = shadow(x2);
var boundArg = function(p, q){ return p.deep + q }.bind(null, o.nested);
var wc = (function(){ var local = x1; var env = {w: x2}; with (env) { return {get: function(){ return [w, local, x0] }, set: function(v){ local = v; w = v }} } })();
var cc; try { throw x0 } catch (e) { cc = {get: function(){ return e }, set: function(v){ e = v }} }
var re = /a/g; re.lastIndex = 2; re.tag = x0;
var wrapped = new Number(x1); wrapped.extra = x2;
var err = new TypeError('msg'); err.code = x0;
var dt = new Date(86400000); dt.tag = x1;
var holes = [x0, , x2]; holes.prop = x1;
function observe(){
  return [o.a, o.inherited, o.nested.deep, o.nested.list.length, o.nested.list[0], 2 in o.nested.list, o.acc,
          counter.get(), args.length, args[0], args[1], bound(1), Object.isFrozen(frozen), frozen.f,
          Object.keys(o).join(','), [].extra(), Object.getPrototypeOf(o) === base, typeof Math.max, sh(), mapped.args[0], mapped.getA(), mapped.args.length, 0 in mapped.args,
          boundArg(1), wc.get()[0], wc.get()[1], wc.get()[2], cc.get(),
          re.lastIndex, re.tag, re.source, re.global, wrapped.valueOf(), wrapped.extra, typeof wrapped, err.message, err.code, err instanceof TypeError, dt.getTime(), dt.tag,
          holes.length, 1 in holes, holes[2], holes.prop];
}
`

var verifCopyMutations = []string{
	"o.a = m",
	"base.inherited = m",
	"o.nested.deep = m",
	"o.nested.list[0] = m",
	"o.nested.list.push(m)",
	"delete o.nested.list[1]; o.nested.list[2] = m",
	"o.acc = m",
	"counter.inc()",
	"args[0] = m",
	"delete o.a",
	"Object.defineProperty(o, 'a', {value: m, writable: false})",
	"Object.freeze(o.nested)",
	"Object.setPrototypeOf ? 0 : 0; base.extraProp = m",
	"Array.prototype.extra = function(){ return m }",
	"Math.max = m",
	"o.fresh = m",
	"mapped.setA(m)",
	"mapped.args[0] = m",
	"delete mapped.args[0]; mapped.setA(m)",
	"delete o.nested; o.late = m",
	"bound = null; delete frozen.f",
	"re.lastIndex = 1; re.tag = m",
	"re.exec('aaaa'); wrapped.extra = m",
	"err.message = 'other'; err.code = m; dt.tag = m",
	"holes[1] = m; holes.prop = m; delete holes[0]",
	"wc.set(m)",
	"cc.set(m)",
	"x0 = m",
}

func VerifH_C17_copy() {
	vm := New()
	x0, x1, x2 := verifNondetFloat64(), verifNondetFloat64(), verifNondetFloat64()
	vm.Set("x0", x0)
	vm.Set("x1", x1)
	vm.Set("x2", x2)
	if _, err := vm.Run(verifCopySetup); err != nil {
		verifAssert(false, "setup runs")
		return
	}
	var cp *Otto
	kind, _ := verifCatch(func() { cp = vm.Copy() })
	verifCover("copied")
	verifAssert(kind == verifNormal, "Copy does not panic")
	if kind != verifNormal {
		return
	}
	obs := func(r *Otto) Value {
		v, _ := r.Run("observe()")
		return v
	}
	before := obs(vm)
	verifAssert(verifSameValue(before, obs(cp)), "the copy is observationally equal to the original")
	// a copy of the copy, too
	cp2 := cp.Copy()
	verifAssert(verifSameValue(before, obs(cp2)), "a copy of the copy is observationally equal")
	// mutate one side, the other must not notice
	m := verifNondetFloat64()
	mut := verifCopyMutations[verifChoose(len(verifCopyMutations))]
	verifLog("mutation: " + mut)
	side := verifChoose(3)
	target, others := vm, []*Otto{cp, cp2}
	if side == 1 {
		target, others = cp, []*Otto{vm, cp2}
	} else if side == 2 {
		target, others = cp2, []*Otto{vm, cp}
	}
	target.Set("m", m)
	target.Run(mut)
	for _, r := range others {
		verifAssert(verifSameValue(before, obs(r)), "mutation on one runtime is not observable from the others")
	}
	// second step: the untouched runtimes must still behave like a fresh copy
	probe := "mapped.setA(41); o.probe = 1; [mapped.args[0], mapped.getA(), Object.keys(o).join(',')].join('|')"
	want, _ := cp2.Copy().Run(probe)
	_ = want
	ref := others[0].Copy()
	refv, _ := ref.Run(probe)
	for _, r := range others {
		v, _ := r.Run(probe)
		verifAssert(v.String() == refv.String(), "untouched runtimes still behave identically after the mutation")
	}
}

// verifSameValue compares two observation arrays element by element (numbers
// as doubles, everything else by its string form).
func verifSameValue(a, b Value) bool {
	ao, bo := a.Object(), b.Object()
	if ao == nil || bo == nil {
		return false
	}
	la, _ := ao.Get("length")
	lb, _ := bo.Get("length")
	na, _ := la.ToInteger()
	nb, _ := lb.ToInteger()
	if na != nb {
		return false
	}
	for i := int64(0); i < na; i++ {
		x, _ := ao.Get(verifItoa(i))
		y, _ := bo.Get(verifItoa(i))
		if x.IsNumber() != y.IsNumber() {
			return false
		}
		if x.IsNumber() {
			fx, _ := x.ToFloat()
			fy, _ := y.ToFloat()
			if !sameF64(fx, fy) {
				return false
			}
		} else if x.String() != y.String() {
			return false
		}
	}
	return true
}

func verifItoa(i int64) string {
	if i < 10 {
		return string(rune('0' + i))
	}
	return string(rune('0'+i/10)) + string(rune('0'+i%10))
}
