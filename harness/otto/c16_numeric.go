//go:build verif

package otto

import (
	"math"
	"reflect"
)

// C16-H1: the numeric conversion used for bridged slices/arrays/struct fields
// and reflective call parameters (Value.toReflectValue): for a JavaScript
// number x (any double) and every Go numeric target kind, either an error, or
// the delivered Go value denotes x exactly (no truncated fraction of either
// sign, no wrap at the ends of the range).
func VerifH_C16_toReflectValue() {
	x := verifNondetFloat64()
	types := []reflect.Type{
		reflect.TypeOf(int8(0)), reflect.TypeOf(int16(0)), reflect.TypeOf(int32(0)), reflect.TypeOf(int64(0)), reflect.TypeOf(int(0)),
		reflect.TypeOf(uint8(0)), reflect.TypeOf(uint16(0)), reflect.TypeOf(uint32(0)), reflect.TypeOf(uint64(0)), reflect.TypeOf(uint(0)),
		reflect.TypeOf(float64(0)),
	}
	k := verifChoose(len(types))
	typ := types[k]
	var rv reflect.Value
	var err error
	kind, _ := verifCatch(func() { rv, err = numV(x).toReflectValue(typ) })
	verifCover("reached")
	verifAssert(kind == verifNormal, "conversion does not panic")
	if kind != verifNormal {
		return
	}
	if err != nil {
		verifCover("rejected")
		return // failing loudly is always allowed
	}
	verifCover("converted")
	switch {
	case k <= 4:
		got := rv.Int()
		// exact: x is that integer (so x is integral and in range)
		verifAssertK(float64(got) == x && (got != 0 || x == 0), "C16-reflect-negative-fraction", x < 0 && x != math.Trunc(x), "signed target: the delivered integer equals the JavaScript number")
		if k == 3 || k == 4 {
			// at the top of the int64 range float64(got) == x cannot tell a wrap
			verifAssert(!(x >= 9223372036854775808.0), "2^63 and above do not fit int64/int")
		}
	case k <= 9:
		got := rv.Uint()
		verifAssertK(float64(got) == x && x >= 0, "C16-reflect-negative-fraction", x < 0 && x > -1, "unsigned target: the delivered integer equals the JavaScript number")
		if k == 8 || k == 9 {
			verifAssert(!(x >= 18446744073709551616.0), "2^64 and above do not fit uint64/uint")
		}
	default:
		verifAssert(sameF64(rv.Float(), x), "float64 target: unchanged")
	}
}
