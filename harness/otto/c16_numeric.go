//go:build verif

package otto

import (
	"math"
	"reflect"
)

// C16-H1: the numeric conversion used for bridged slices/arrays/struct fields
// and reflective call parameters (Value.toReflectValue): for a JavaScript
// number x (any double) and every Go numeric target kind, either an error, or
// the delivered Go value denotes x exactly (no truncated fraction of either
// sign, no wrap at the ends of the range).
func VerifH_C16_toReflectValue() {
	x := verifNondetFloat64()
	types := []reflect.Type{
		reflect.TypeOf(int8(0)), reflect.TypeOf(int16(0)), reflect.TypeOf(int32(0)), reflect.TypeOf(int64(0)), reflect.TypeOf(int(0)),
		reflect.TypeOf(uint8(0)), reflect.TypeOf(uint16(0)), reflect.TypeOf(uint32(0)), reflect.TypeOf(uint64(0)), reflect.TypeOf(uint(0)),
		reflect.TypeOf(float64(0)),
	}
	k := verifChoose(len(types))
	typ := types[k]
	var rv reflect.Value
	var err error
	kind, _ := verifCatch(func() { rv, err = numV(x).toReflectValue(typ) })
	verifCover("reached")
	verifAssert(kind == verifNormal, "conversion does not panic")
	if kind != verifNormal {
		return
	}
	if err != nil {
		verifCover("rejected")
		return // failing loudly is always allowed
	}
	verifCover("converted")
	switch {
	case k <= 4:
		got := rv.Int()
		// exact: x is that integer (so x is integral and in range)
		verifAssertK(float64(got) == x && (got != 0 || x == 0), "C16-reflect-negative-fraction", x < 0 && x != math.Trunc(x), "signed target: the delivered integer equals the JavaScript number")
		if k == 3 || k == 4 {
			// at the top of the int64 range float64(got) == x cannot tell a wrap
			verifAssert(!(x >= 9223372036854775808.0), "2^63 and above do not fit int64/int")
		}
	case k <= 9:
		got := rv.Uint()
		verifAssertK(float64(got) == x && x >= 0, "C16-reflect-negative-fraction", x < 0 && x > -1, "unsigned target: the delivered integer equals the JavaScript number")
		if k == 8 || k == 9 {
			verifAssert(!(x >= 18446744073709551616.0), "2^64 and above do not fit uint64/uint")
		}
	default:
		verifAssert(sameF64(rv.Float(), x), "float64 target: unchanged")
	}
}

// C16-H1b: the conversion of numeric ARGUMENTS of bridged Go functions
// (runtime.convertCallParameter -> convertNumeric): for every stored JavaScript
// number representation (float64, int64, int32, uint32 payload symbolic) and
// every numeric parameter kind, either the call fails with a RangeError /
// TypeError exception (visible to the script) or the parameter value equals
// the JavaScript number exactly.
func VerifH_C16_call_parameter() {
	vm := New()
	var v Value
	var asFloat float64
	exactInt := false
	var asInt int64
	isU := false
	var asU uint64
	switch verifChoose(6) {
	case 4:
		x := verifNondetUint64()
		v, asU, isU = Value{kind: valueNumber, value: x}, x, true
	case 5:
		x := verifNondetUint()
		v, asU, isU = Value{kind: valueNumber, value: x}, uint64(x), true
	case 0:
		x := verifNondetFloat64()
		v, asFloat = numV(x), x
	case 1:
		x := verifNondetInt64()
		v, asFloat, asInt, exactInt = Value{kind: valueNumber, value: x}, float64(x), x, true
	case 2:
		x := verifNondetInt32()
		v, asFloat, asInt, exactInt = Value{kind: valueNumber, value: x}, float64(x), int64(x), true
	default:
		x := verifNondetUint32()
		v, asFloat, asInt, exactInt = Value{kind: valueNumber, value: x}, float64(x), int64(x), true
	}
	types := []reflect.Type{
		reflect.TypeOf(int8(0)), reflect.TypeOf(int16(0)), reflect.TypeOf(int32(0)), reflect.TypeOf(int64(0)), reflect.TypeOf(int(0)),
		reflect.TypeOf(uint8(0)), reflect.TypeOf(uint16(0)), reflect.TypeOf(uint32(0)), reflect.TypeOf(uint64(0)), reflect.TypeOf(uint(0)),
		reflect.TypeOf(float64(0)), reflect.TypeOf(float32(0)),
	}
	k := verifChoose(len(types))
	if isU {
		verifAssume(k <= 9) // full-width unsigned sources: integer parameter kinds
	}
	var rv reflect.Value
	var err error
	kind, _ := verifCatch(func() { rv, err = vm.runtime.convertCallParameter(v, types[k]) })
	verifCover("reached")
	verifAssert(kind == verifNormal || kind == verifOttoExc, "a failed conversion is an exception of the script, not a Go panic")
	if kind != verifNormal || err != nil {
		verifCover("rejected")
		return
	}
	verifCover("converted")
	switch {
	case isU && k <= 4:
		got := rv.Int()
		verifAssert(got >= 0 && uint64(got) == asU, "signed parameter from an unsigned source: exactly the integer (no wrap above MaxInt64)")
	case isU:
		verifAssert(rv.Uint() == asU, "unsigned parameter from an unsigned source: exactly the integer")
	case k <= 4:
		got := rv.Int()
		if exactInt {
			verifAssert(got == asInt, "signed parameter: exactly the integer")
		} else {
			verifAssert(float64(got) == asFloat && asFloat < 9223372036854775808.0, "signed parameter: exactly the JavaScript number")
		}
	case k <= 9:
		got := rv.Uint()
		if exactInt {
			verifAssert(asInt >= 0 && got == uint64(asInt), "unsigned parameter: exactly the integer")
		} else {
			verifAssert(asFloat >= 0 && float64(got) == asFloat && asFloat < 18446744073709551616.0, "unsigned parameter: exactly the JavaScript number")
		}
	case k == 10:
		verifAssert(sameF64(rv.Float(), asFloat), "float64 parameter: the number itself")
	default:
		got := rv.Float()
		// narrowing to float32 is the denotation of a float32 parameter; it must
		// not turn a finite number into an infinity
		verifAssert(asFloat != asFloat || math.Abs(asFloat) > math.MaxFloat64 || math.Abs(got) <= math.MaxFloat32, "float32 parameter: a finite number stays finite")
	}
}

// C16-H2: writes from JavaScript into a bridged Go slice act on the live Go
// object with the checked conversion: sl[i] = x either fails loudly or stores
// exactly x; reads see the Go contents; length is the Go length.
func VerifH_C16_slice_write() {
	vm := New()
	x := verifNondetFloat64()
	vm.Set("x", x)
	idx := verifChoose(6) // 3 is one past the end (append), 4 and 5 leave a gap
	vm.Set("i", idx)
	switch verifChoose(7) {
	case 6: // a string written into an integer element: ToNumber, then the same check as for a number
		n := 1 + verifChoose(2)
		str := verifNondetString(n)
		for i := 0; i < n; i++ {
			verifAssume(str[i] == 'x' || str[i] == '.' || str[i] == '-' || (str[i] >= '0' && str[i] <= '9'))
		}
		vm.Set("str", str)
		sl := []int16{7, 8}
		vm.Set("sl", sl)
		var err error
		kind, _ := verifCatch(func() { _, err = vm.Run("sl[0] = str") })
		verifCover("reached")
		verifAssert(kind == verifNormal, "no Go panic")
		if kind == verifNormal && err == nil {
			// stored: then the string must denote exactly that integer
			exact := true
			val := 0
			start := 0
			if str[0] == '-' {
				start = 1
			}
			if start >= n {
				exact = false
			}
			for i := start; i < n; i++ {
				if str[i] < '0' || str[i] > '9' {
					exact = false
				} else {
					val = val*10 + int(str[i]-'0')
				}
			}
			if start == 1 {
				val = -val
			}
			verifAssertK(exact && int(sl[0]) == val, "C16-non-number-into-integer-silently-zero", !exact, "a string stored into an integer element denotes exactly that integer (otherwise the write is refused)")
		}
		return
	case 5: // elements of a kind no number converts to: the write is refused loudly
		one := int8(1)
		sl := []*int8{&one, nil}
		vm.Set("sl", sl)
		var v Value
		var err error
		kind, _ := verifCatch(func() {
			v, err = vm.Run("var r = 'ok'; try { sl[i] = x } catch (e) { r = (e instanceof RangeError || e instanceof TypeError) ? 'refused' : 'other' } try { sl.push(x) } catch (e) { r += (e instanceof RangeError || e instanceof TypeError) ? ',refused' : ',other' } r")
		})
		verifCover("reached")
		verifAssert(kind == verifNormal && err == nil, "an unconvertible value written to a bridged slice is an exception of the script, not a Go panic")
		if kind == verifNormal && err == nil {
			verifAssert(v.String() != "other" && v.String() != "ok,other" && v.String() != "refused,other", "the refusal is a RangeError or TypeError")
		}
		return
	case 4: // delete: a non-index name is an ordinary property; an element is zeroed or the delete refused
		sl := []float64{1, 2, 3}
		vm.Set("sl", sl)
		arr := [2]int16{7, 8}
		vm.Set("ar", arr)
		var v Value
		var err error
		kind, _ := verifCatch(func() {
			// (no try/catch in the script: otto's catch would swallow a Go panic)
			vm.Run("Object.defineProperty(sl, '0', {get: function () { return 1 }})")
			vm.Run("Object.defineProperty(sl, 'length', {set: function () {}})")
			vm.Run("Object.defineProperty(ar, '1', {get: function () {}})")
			vm.Run("sl.length = {valueOf: function () { throw x }}")
			v, err = vm.Run("sl.tag = x; [delete sl.tag, 'tag' in sl, delete sl.nope, delete ar.nope, delete sl[i], sl.length, delete sl.length, delete ar[0]].join()")
		})
		verifCover("reached")
		verifAssert(kind == verifNormal && err == nil, "delete on a bridged slice / array returns: no Go panic, no unbounded recursion")
		if kind == verifNormal && err == nil {
			elem := "false"
			if idx < 3 {
				elem = "true"
			}
			verifAssert(v.String() == "true,false,true,true,"+elem+",3,false,false" || v.String() == "true,false,true,true,"+elem+",3,false,true", "delete: ordinary properties go, elements are zeroed in place (length unchanged), length stays")
		}
		return
	case 3: // assigning the length: any double below 6 (growth is bounded to keep allocations small)
		sl := []float64{1, 2, 3}
		vm.Set("sl", sl)
		verifAssume(!(x >= 6))
		var v Value
		var err error
		kind, _ := verifCatch(func() {
			v, err = vm.Run("var r = 'ok'; try { sl.length = x } catch (e) { r = e instanceof RangeError ? 'RangeError' : 'other' } [r, sl.length].join()")
		})
		verifCover("reached")
		verifAssert(kind == verifNormal && err == nil, "a refused length is an exception of the script, not a Go panic")
		if kind == verifNormal && err == nil {
			want := refToInteger(x)
			if want < 0 {
				verifAssert(v.String() == "RangeError,3", "a negative length is refused with a RangeError and changes nothing")
			} else {
				verifAssert(v.String() == "ok,"+verifItoa(int64(want)), "the length becomes ToInteger of the assigned value")
			}
		}
		return
	case 0:
		sl := []int8{1, 2, 3}
		vm.Set("sl", sl)
		kind, _ := verifCatch(func() { vm.Run("sl[i] = x") })
		verifCover("reached")
		verifAssert(kind == verifNormal, "a refused write is an error returned by Run, not a Go panic")
		if idx < 3 {
			if kind == verifNormal {
				got := sl[idx]
				verifAssert(float64(got) == x || got == []int8{1, 2, 3}[idx], "int8 element: exactly x was stored, or the write was refused")
			}
			for j := 0; j < 3; j++ {
				if j != idx {
					verifAssert(sl[j] == []int8{1, 2, 3}[j], "other elements untouched")
				}
			}
		}
		v, err := vm.Run("sl.length")
		if err == nil {
			f, _ := v.ToFloat()
			verifAssert(f >= 3, "length reflects the Go slice")
		}
	case 1:
		sl := []uint16{1, 2, 3}
		vm.Set("sl", sl)
		kind, _ := verifCatch(func() { vm.Run("sl[i] = x") })
		verifCover("reached")
		verifAssert(kind == verifNormal, "a refused write is an error returned by Run, not a Go panic")
		if idx < 3 && kind == verifNormal {
			got := sl[idx]
			verifAssert(float64(got) == x || got == []uint16{1, 2, 3}[idx], "uint16 element: exactly x was stored, or the write was refused")
		}
	default:
		sl := []float64{1, 2, 3}
		vm.Set("sl", sl)
		var werr error
		kind, _ := verifCatch(func() { _, werr = vm.Run("sl[i] = x") })
		verifCover("reached")
		if idx < 3 && kind == verifNormal {
			verifAssert(sameF64(sl[idx], x), "float64 element: x stored unchanged")
			r, _ := vm.Run("sl[i]")
			rf, _ := r.ToFloat()
			verifAssert(sameF64(rf, x), "and read back")
		}
		if idx >= 3 && kind == verifNormal && werr == nil {
			// a write at or past the end: appended at exactly that index (idx == len),
			// or - a slice cannot hold a gap - not performed at all (a failed
			// non-strict [[Put]] is silent); never stored somewhere else
			r, _ := vm.Run("sl[i]")
			rf, _ := r.ToFloat()
			l, _ := vm.Run("sl.length")
			lf, _ := l.ToFloat()
			stored := r.IsNumber() && sameF64(rf, x) && lf == float64(idx+1)
			ignored := r.IsUndefined() && lf == 3
			verifAssert(stored || ignored, "a write past the end lands at exactly that index or changes nothing")
			for j := 0; j < 3; j++ {
				e, _ := vm.Run("sl[" + verifItoa(int64(j)) + "]")
				ef, _ := e.ToFloat()
				verifAssert(ef == float64(j+1), "existing elements untouched by a write past the end")
			}
			if ignored {
				// the checked form of the same store reports the refusal
				d, _ := vm.Run("var res = 'stored'; try { Object.defineProperty(sl, String(i), {value: x}) } catch (e) { res = e instanceof TypeError ? 'TypeError' : 'other' } res")
				l2, _ := vm.Run("sl.length")
				l2f, _ := l2.ToFloat()
				verifAssert(d.String() == "TypeError" && l2f == 3, "defineProperty past the end is refused with a TypeError and changes nothing")
			}
		}
	}
}

// C16-H3 / C02: property names on a bridged Go map whose key type is an
// integer kind: any name (symbolic ASCII bytes) in a read, an `in` test, a
// write or a delete - a name that is not a key of that type means "no such
// property" for reads and deletes and a RangeError for writes; no Go panic
// escapes Run. (Access with a valid key goes into reflect's map
// implementation, which the shim does not model: reported inconclusive.)
func VerifH_C16_map_keys() {
	vm := New()
	n := verifChoose(verifParam("maxlen", 2) + 1)
	s := verifNondetString(n)
	for i := 0; i < n; i++ {
		verifAssume(s[i] < 0x80)
	}
	isKey := n > 0
	for i := 0; i < n; i++ {
		if s[i] < '0' || s[i] > '9' {
			isKey = false
		}
	}
	vm.Set("s", s)
	switch verifChoose(4) {
	case 3: // no property name denotes a key of this kind
		isKey = false
		vm.Set("m", map[interface{}]int{1: 2})
	case 0:
		vm.Set("m", map[int]string{1: "a"})
	case 1:
		vm.Set("m", map[uint8]int{1: 2})
	default:
		vm.Set("m", map[int64]bool{1: true})
	}
	verifAssume(!isKey) // valid keys: beyond the reflect shim
	script := []string{"m[s]", "s in m", "delete m[s]", "var r = 'ok'; try { m[s] = 1 } catch (e) { r = e instanceof RangeError || e instanceof TypeError ? 'refused' : 'other' } r"}[verifChoose(4)]
	verifLog(script)
	var v Value
	var err error
	kind, _ := verifCatch(func() { v, err = vm.Run(script) })
	verifCover("reached")
	verifAssert(kind == verifNormal, "no Go panic escapes Run")
	if kind != verifNormal || err != nil {
		return
	}
	switch script[0] {
	case 'm':
		verifAssert(v.IsUndefined() || v.IsFunction() || v.IsObject(), "a name that is not a key reads as undefined (or an inherited member)")
	case 's':
		b, _ := v.ToBoolean()
		_ = b
	case 'd':
		b, _ := v.ToBoolean()
		verifAssert(b, "deleting a name that cannot be a key succeeds trivially")
	case 'v':
		verifAssert(v.String() == "refused", "writing a name that is not a key of the map's key type is refused with an error the script sees")
	}
}

// C16-H4: a property name used as the key of a bridged Go map with an integer
// key type (stringToReflectValue): it either is not a key (error) or denotes
// exactly the returned integer - the canonical decimal numeral of that value,
// within the key type's range. No wrap-around at the width, no second
// spelling ("010", "0x10", "+5", "1_0") aliasing another key.
func verifCanonicalInt(v int64) string {
	if v == 0 {
		return "0"
	}
	neg := v < 0
	var digits []byte
	u := uint64(v)
	if neg {
		u = uint64(-v)
	}
	for u > 0 {
		digits = append([]byte{byte('0' + u%10)}, digits...)
		u /= 10
	}
	if neg {
		return "-" + string(digits)
	}
	return string(digits)
}

var verifKeyAlphabet = func() (t [256]bool) {
	for _, c := range []byte("0123456789+-_xXbBoOaAfF. e") {
		t[c] = true
	}
	return
}()

func VerifH_C16_map_key_conversion() {
	n := 1 + verifChoose(verifParam("maxlen", 3))
	if d := verifParam("digits", 0); d > 0 {
		n = d // exactly d decimal digits, optionally signed: the range checks at the key type's width
	}
	s := verifNondetString(n)
	for i := 0; i < n; i++ {
		if verifParam("digits", 0) > 0 {
			verifAssume(s[i] >= '0' && s[i] <= '9' || (i == 0 && s[i] == '-'))
		} else {
			verifAssume(verifKeyAlphabet[s[i]])
		}
	}
	kinds := []reflect.Kind{reflect.Int8, reflect.Int16, reflect.Int32, reflect.Int64, reflect.Int, reflect.Uint8, reflect.Uint16, reflect.Uint32, reflect.Uint64, reflect.Uint}
	k := verifChoose(len(kinds))
	var rv reflect.Value
	var err error
	kind, _ := verifCatch(func() { rv, err = stringToReflectValue(s, kinds[k]) })
	verifCover("reached")
	verifAssert(kind == verifNormal, "no Go panic")
	if kind != verifNormal || err != nil {
		verifCover("rejected")
		return
	}
	verifCover("accepted")
	var got int64
	if k <= 4 {
		got = rv.Int()
	} else {
		got = int64(rv.Uint())
	}
	if verifParam("digits", 0) > 0 {
		// numeric comparison (cheaper for the solver than building the numeral)
		var ref int64
		start := 0
		if s[0] == '-' {
			start = 1
		}
		for i := start; i < n; i++ {
			ref = ref*10 + int64(s[i]-'0')
		}
		if start == 1 {
			ref = -ref
		}
		canonical := s[start] != '0' || (n == 1)
		verifAssert(got == ref && canonical, "an accepted digit string denotes exactly the returned key (no wrap at the key type's width, canonical spelling)")
		return
	}
	verifAssert(verifCanonicalInt(got) == s, "an accepted property name is the canonical decimal numeral of the key it is converted to")
}

// C16-H5: a Go function bridged into the runtime, called from a script with
// 0..3 arguments that are any doubles: the call either fails with a RangeError
// (arity, range) / TypeError visible to the script and the Go function is NOT
// entered, or the Go function receives exactly the numbers the script passed
// and its result comes back intact.
func VerifH_C16_go_function_call() {
	vm := New()
	var gotA int8
	var gotB uint16
	calls := 0
	vm.Set("g", func(a int8, b uint16) float64 {
		calls++
		gotA, gotB = a, b
		return float64(a)*65536 + float64(b)
	})
	x, y := verifNondetFloat64(), verifNondetFloat64()
	vm.Set("x", x)
	vm.Set("y", y)
	nargs := verifChoose(4)
	call := []string{"g()", "g(x)", "g(x, y)", "g(x, y, 1)"}[nargs]
	v, ok := verifRun(vm, "var r = 'ok', v; try { v = "+call+" } catch (e) { r = e instanceof RangeError ? 'RangeError' : e instanceof TypeError ? 'TypeError' : 'other' } r")
	verifCover("reached")
	verifAssert(ok, "the script completes: a refused call is an exception it can catch, not a Go panic")
	if !ok {
		return
	}
	res := v.String()
	fits := x == math.Trunc(x) && x >= -128 && x <= 127 && y == math.Trunc(y) && y >= 0 && y <= 65535
	if nargs != 2 {
		verifAssert(res == "RangeError" && calls == 0, "an arity mismatch is reported and the Go function is not entered")
		return
	}
	if !fits {
		verifAssert((res == "RangeError" || res == "TypeError") && calls == 0, "a number that does not fit the parameter type is refused loudly; the Go function is not entered")
		return
	}
	verifAssert(res == "ok" && calls == 1, "fitting arguments: the Go function is entered once")
	verifAssert(float64(gotA) == x && float64(gotB) == y, "each argument arrives as exactly the Go value it denotes")
	r, _ := vm.Get("v")
	rf, _ := r.ToFloat()
	verifAssert(rf == float64(gotA)*65536+float64(gotB), "the return value comes back intact")
}
