//go:build verif

package otto

import "math"

// sameF64: identical doubles, all NaNs identified (ES5 has one NaN).
func sameF64(a, b float64) bool {
	if a != a {
		return b != b
	}
	if b != b {
		return false
	}
	return math.Float64bits(a) == math.Float64bits(b)
}

func numV(f float64) Value { return Value{kind: valueNumber, value: f} }

func isNegZeroOrNeg(x float64) bool { return x < 0 || (x == 0 && math.Float64bits(x)>>63 != 0) }

// refToInteger: ES5 9.4 on a double.
func refToInteger(x float64) float64 {
	if x != x {
		return 0
	}
	if x == 0 || x > math.MaxFloat64 || x < -math.MaxFloat64 {
		return x
	}
	if x > 0 {
		return math.Floor(x)
	}
	return -math.Floor(-x)
}

func verifCall(args ...Value) FunctionCall {
	return FunctionCall{ArgumentList: args}
}

func mathBits(x float64) uint64 { return math.Float64bits(x) }
