//go:build verif

package otto

func refUnescapedURI(c byte, component bool) bool {
	if c >= 'A' && c <= 'Z' || c >= 'a' && c <= 'z' || c >= '0' && c <= '9' {
		return true
	}
	for _, m := range []byte("-_.!~*'()") {
		if c == m {
			return true
		}
	}
	if !component {
		for _, m := range []byte(";/?:@&=+$,#") {
			if c == m {
				return true
			}
		}
	}
	return false
}

// encodeURI / encodeURIComponent (ES5 15.1.3.3/4) on valid UTF-8 strings:
// every byte of the UTF-8 form is either an unescaped character of the set or
// an upper-case %XX; decoding gives the string back.
func VerifH_C13_encodeURI() {
	vm := New()
	s, _ := verifSubject(vm)
	comp := verifNondetBool()
	fn := "encodeURI"
	if comp {
		fn = "encodeURIComponent"
	}
	v, ok := verifRun(vm, fn+"(s)")
	verifCover("reached")
	verifAssert(ok, "a well-formed string encodes without URIError")
	if !ok {
		return
	}
	want := []byte{}
	for i := 0; i < len(s); i++ {
		c := s[i]
		if c < 0x80 && refUnescapedURI(c, comp) {
			want = append(want, c)
		} else {
			want = append(want, '%', refHexUpper[c>>4], refHexUpper[c&15])
		}
	}
	verifAssert(v.String() == string(want), "15.1.3: unescaped set kept, everything else as upper-case %XX of the UTF-8 bytes")
	r, ok2 := verifRun(vm, "decodeURIComponent("+fn+"(s)) === s")
	if ok2 {
		b, _ := r.ToBoolean()
		verifAssert(b, "decodeURIComponent(encode(s)) === s")
	}
}
