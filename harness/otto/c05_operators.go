//go:build verif

package otto

import "math"

var verifBinOps = []string{"+", "-", "*", "/", "<", ">", "<=", ">=", "==", "!=", "===", "!==", "&", "|", "^", "<<", ">>", ">>>"}

// refInt32/refUint32 on a double via the bit-level reference of c05_kernels.go.
func refInt32(x float64) int32   { return int32(refModPow2(math.Float64bits(x), 32)) }
func refUint32(x float64) uint32 { return refModPow2(math.Float64bits(x), 32) }

// refBinaryNumber: ES5 11.5-11.10 on two Number operands. Returns the result as
// a double (booleans as 0/1) and whether it is a boolean.
func refBinaryNumber(op string, x, y float64) (float64, bool) {
	b := func(v bool) (float64, bool) {
		if v {
			return 1, true
		}
		return 0, true
	}
	switch op {
	case "+":
		return x + y, false
	case "-":
		return x - y, false
	case "*":
		return x * y, false
	case "/":
		return x / y, false
	case "<":
		return b(x < y)
	case ">":
		return b(x > y)
	case "<=":
		return b(x <= y)
	case ">=":
		return b(x >= y)
	case "==", "===":
		return b(x == y)
	case "!=", "!==":
		return b(x != y)
	case "&":
		return float64(refInt32(x) & refInt32(y)), false
	case "|":
		return float64(refInt32(x) | refInt32(y)), false
	case "^":
		return float64(refInt32(x) ^ refInt32(y)), false
	case "<<":
		return float64(refInt32(x) << (refUint32(y) & 31)), false
	case ">>":
		return float64(refInt32(x) >> (refUint32(y) & 31)), false
	default: // >>>
		return float64(refUint32(x) >> (refUint32(y) & 31)), false
	}
}

func verifCheckBinary(v Value, op string, x, y float64) {
	want, isBool := refBinaryNumber(op, x, y)
	if isBool {
		verifAssert(v.IsBoolean(), "relational/equality operator yields a boolean: "+op)
		got, _ := v.ToBoolean()
		verifAssert(got == (want == 1), "ES5 11.8/11.9 on numbers: "+op)
		return
	}
	verifAssert(v.IsNumber(), "arithmetic/bitwise operator yields a number: "+op)
	got, _ := v.ToFloat()
	verifAssert(sameF64(got, want), "ES5 11.5-11.10 on numbers: "+op)
}

// verifBitwiseDomain: for the bitwise operators the operands are restricted to
// NaN, the infinities and |x| < 2^63. ToInt32/ToUint32 themselves are decided
// for all doubles by the kernel harnesses; here the operator wiring is the
// subject, and the mod-2^32 reduction of huge values would only make each
// query undecidable in reasonable time.
func verifBitwiseDomain(op string, x float64) {
	switch op {
	case "&", "|", "^", "<<", ">>", ">>>", "~":
		verifAssume(x != x || math.Abs(x) < 9223372036854775808.0 || math.Abs(x) > math.MaxFloat64)
	}
}

// Binary operators on two arbitrary doubles.
// verifOperands: two arbitrary doubles; for the shift operators the count
// operand is any multiple of 1/4 in [-8192, 8192) (a symbolic shift amount
// derived from a second arbitrary double is not decided by any solver here
// within minutes).
func verifOperands(op string) (float64, float64) {
	x := verifNondetFloat64()
	if op == "<<" || op == ">>" || op == ">>>" {
		return x, float64(verifNondetInt16()) / 4
	}
	return x, verifNondetFloat64()
}

func verifChooseOp() string {
	return verifBinOps[verifParam("opfrom", 0)+verifChoose(verifParam("opto", len(verifBinOps))-verifParam("opfrom", 0))]
}

func VerifH_C05_binary_numbers() {
	vm := New()
	op := verifChooseOp()
	x, y := verifOperands(op)
	verifBitwiseDomain(op, x)
	verifBitwiseDomain(op, y)
	vm.Set("x", x)
	vm.Set("y", y)
	v, ok := verifRun(vm, "x "+op+" y")
	verifCover("reached")
	verifAssert(ok, "operator does not throw on numbers")
	if ok {
		verifCheckBinary(v, op, x, y)
	}
}

// Operand evaluation and coercion order (11.x: left operand first) with
// objects whose valueOf has a side effect and returns an arbitrary double.
func VerifH_C05_binary_order() {
	vm := New()
	op := verifChooseOp()
	x, y := verifOperands(op)
	verifBitwiseDomain(op, x)
	verifBitwiseDomain(op, y)
	vm.Set("x", x)
	vm.Set("y", y)
	_, ok := verifRun(vm, `var log = ''; var a = {valueOf: function(){ log += 'a'; return x }}, b = {valueOf: function(){ log += 'b'; return y }};
var r = (log += '1', a) `+op+` (log += '2', b); log`)
	verifCover("reached")
	verifAssert(ok, "operator does not throw on objects with valueOf")
	if !ok {
		return
	}
	lg, _ := vm.Get("log")
	if op == "===" || op == "!==" || op == "==" || op == "!=" {
		// object-to-object (strict) equality compares identity: no coercion
		verifAssert(lg.String() == "12", "operands evaluated left to right, no coercion for object/object equality")
		return
	}
	verifAssert(lg.String() == "12ab", "operands evaluated, then coerced, left before right: "+op)
	r, _ := vm.Get("r")
	verifCheckBinary(r, op, x, y)
}

var verifUnaryOps = []string{"-", "+", "~", "!", "typeof "}

func VerifH_C05_unary_numbers() {
	vm := New()
	op := verifUnaryOps[verifChoose(len(verifUnaryOps))]
	x := verifNondetFloat64()
	verifBitwiseDomain(op, x)
	vm.Set("x", x)
	v, ok := verifRun(vm, op+"x")
	verifCover("reached")
	verifAssert(ok, "unary operator does not throw")
	if !ok {
		return
	}
	switch op {
	case "-":
		f, _ := v.ToFloat()
		verifAssert(sameF64(f, -x), "11.4.7 unary minus")
	case "+":
		f, _ := v.ToFloat()
		verifAssert(sameF64(f, x), "11.4.6 unary plus")
	case "~":
		f, _ := v.ToFloat()
		verifAssert(f == float64(^refInt32(x)), "11.4.8 bitwise not")
	case "!":
		b, _ := v.ToBoolean()
		verifAssert(v.IsBoolean() && b == (x == 0 || x != x), "11.4.9 logical not")
	default:
		verifAssert(v.String() == "number", "11.4.3 typeof number")
	}
}

// Compound assignment (11.13.2): the left operand's value is read BEFORE the
// right operand is evaluated, the reference is evaluated once, and the result
// is the stored value. Operands any doubles; the right operand assigns to the
// same variable / property / element.
func VerifH_C05_compound_assignment() {
	vm := New()
	a, b := verifNondetFloat64(), verifNondetFloat64()
	vm.Set("a", a)
	vm.Set("b", b)
	ops := []string{"+", "-", "*", "/"}
	op := ops[verifChoose(len(ops))]
	target := verifChoose(4)
	var script string
	switch target {
	case 0:
		script = "var v = a; var r = (v " + op + "= (v = b)); [r, v]"
	case 1:
		script = "var o = {p: a}; var r = (o.p " + op + "= (o.p = b)); [r, o.p]"
	case 2:
		script = "var arr = [a], i = 0; var r = (arr[i++] " + op + "= (arr[0] = b)); [r, arr[0], i]"
	default:
		script = "var n = 0, o = {p: a}; function obj() { n++; return o } var r = (obj().p " + op + "= b); [r, o.p, n]"
	}
	verifLog(script)
	v, ok := verifRun(vm, script)
	verifCover("reached")
	verifAssert(ok, "does not throw")
	if !ok {
		return
	}
	want, _ := refBinaryNumber(op, a, b)
	o := v.Object()
	r0, _ := o.Get("0")
	r1, _ := o.Get("1")
	f0, _ := r0.ToFloat()
	f1, _ := r1.ToFloat()
	verifAssert(sameF64(f0, want) && sameF64(f1, want), "11.13.2: lval is read before the right operand runs; the result is what was stored")
	if target >= 2 {
		r2, _ := o.Get("2")
		f2, _ := r2.ToFloat()
		verifAssert(f2 == 1, "11.13.2: the left-hand side is evaluated exactly once")
	}
}
