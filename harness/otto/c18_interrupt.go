//go:build verif

package otto

import "errors"

type verifHalt struct{}

var verifErr = errors.New("halt")

var verifInterruptPrograms = []struct {
	src      string
	minPolls int // polls that must occur when the interrupt never fires
}{
	{"for (var i = 0; i < 3; i++) {} done = true", 3},
	{"var i = 0; while (i < 3) { i++ } done = true", 3},
	{"var i = 0; do { i++ } while (i < 3); done = true", 3},
	{"outer: for (var i = 0; i < 2; i++) { for (var j = 0; j < 2; j++) { if (j == 1) continue outer } } done = true", 4},
	{"function f(n) { return n == 0 ? 0 : 1 + f(n - 1) } f(3); done = true", 4},
	{"[1, 2, 3].forEach(function(x) { hits += x }); done = true", 3},
	{"[3, 1, 2].sort(function(a, b) { return a - b }); done = true", 2},
	{"try { for (var i = 0; i < 3; i++) { hits++ } } catch (e) { swallowed = true } done = true", 3},
	{"try { try { for (var i = 0; i < 2; i++) { hits++ } } finally { fin = true } } catch (e) { swallowed = true } done = true", 2},
	{"with ({a: 1}) { for (var i = 0; i < 2; i++) { hits += a } } done = true", 2},
	{"(0, eval)('for (var i = 0; i < 2; i++) { hits++ }'); done = true", 2},
	{"for (;;) { if (++hits > 2) break } done = true", 3},
	{"for (var k in {a: 1, b: 2}) { hits++ } done = true", 2},
	{"lbl: { for (var i = 0; i < 3; i++) { if (i == 1) break lbl } } done = true", 2},
	{"while (flag) {} done = true", 3},            // empty body, bare-identifier condition (host getter)
	{"do {} while (flag); done = true", 3},
	{"for (; flag; ) {} done = true", 3},
}

// C18: an interrupt function that panics, delivered at any poll, unwinds Run
// with that panic; the runtime is at rest and reusable afterwards; loops keep
// polling.
func VerifH_C18_interrupt() {
	vm := New()
	prog := verifInterruptPrograms[verifChoose(len(verifInterruptPrograms))]
	vm.Run("var hits = 0, done = false, swallowed = false, fin = false")
	// 'flag' is a global whose getter is a host function: true three times
	ticks := 0
	lastPolls := -1
	stalled := false
	vm.Set("verifTick", func(call FunctionCall) Value {
		ticks++
		// promptness: the channel must have been polled since the previous
		// evaluation of the loop condition
		if pc := verifPollCount(); pc == lastPolls {
			stalled = true
		} else {
			lastPolls = pc
		}
		return toValue(ticks <= 3)
	})
	vm.Run("Object.defineProperty(this, 'flag', {get: verifTick, configurable: true})")
	// the interrupt function panics with one of several kinds of value
	pk := verifChoose(3)
	scopeBefore := vm.runtime.scope
	vm.Interrupt = verifPollChan(func() {
		switch pk {
		case 0:
			panic(verifHalt{})
		case 1:
			panic(toValue("halt"))
		default:
			panic(verifErr)
		}
	}, verifParam("polls", 40))
	verifLog("program: " + prog.src)
	var rerr error
	kind, val := verifCatch(func() { _, rerr = vm.Run(prog.src) })
	fired := verifPollFired()
	polls := verifPollCount()
	vm.Interrupt = nil
	verifCover("ran")
	if fired {
		verifCover("interrupted")
		isHalt := false
		switch pk {
		case 0:
			_, isHalt = val.(verifHalt)
			isHalt = isHalt && kind == verifForeign
		case 1:
			v, ok := val.(Value)
			isHalt = ok && kind == verifOttoExc && v.IsString() && v.String() == "halt"
		default:
			e, ok := val.(error)
			isHalt = ok && kind == verifForeign && e == verifErr
		}
		verifAssert(isHalt, "the interrupt's panic reaches the caller of Run unchanged (not swallowed, not converted)")
		d, _ := vm.Run("done")
		db, _ := d.ToBoolean()
		verifAssert(!db, "the script did not continue after the interrupt")
		sw, _ := vm.Run("swallowed")
		sb, _ := sw.ToBoolean()
		verifAssert(!sb, "a script-level catch did not see the interrupt")
	} else {
		verifCover("completed")
		verifAssert(kind == verifNormal && rerr == nil, "without an interrupt the program completes")
		d, _ := vm.Run("done")
		db, _ := d.ToBoolean()
		verifAssert(db, "program ran to its end")
		verifAssert(polls >= prog.minPolls, "the interrupt channel is polled at least once per loop iteration / call")
		verifAssert(!stalled, "the channel is polled between two evaluations of a loop condition (no unbounded progress without a poll)")
	}
	// at rest and reusable
	verifAssert(vm.runtime.scope == scopeBefore, "call stack back to rest (scope restored)")
	verifAssert(len(vm.runtime.labels) == 0, "label state back to rest")
	k2, _ := verifCatch(func() {
		v, err := vm.Run("hits >= 0 ? 1 + 1 : 0")
		verifAssert(err == nil, "follow-up script runs")
		f, _ := v.ToFloat()
		verifAssert(f == 2, "follow-up script computes normally; earlier effects readable")
	})
	verifAssert(k2 == verifNormal, "follow-up Run does not panic")
}
