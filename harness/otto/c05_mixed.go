//go:build verif

package otto

import "math"

// A primitive operand of symbolic kind/payload with its ES5 view.
type verifPrim struct {
	kind int // 0 undefined 1 null 2 boolean 3 number 4 string
	b    bool
	f    float64
	s    string
}

func verifPrimOperand(vm *Otto, name string) verifPrim {
	var p verifPrim
	p.kind = verifChoose(5)
	switch p.kind {
	case 0:
		vm.Set(name, Value{})
	case 1:
		vm.Set(name, nullValue)
	case 2:
		p.b = verifNondetBool()
		vm.Set(name, p.b)
	case 3:
		p.f = verifNondetFloat64()
		vm.Set(name, p.f)
	default:
		n := verifChoose(verifParam("maxstr", 1) + 1)
		p.s = verifNondetString(n)
		verifAssume(verifValidUTF8(p.s))
		vm.Set(name, p.s)
	}
	return p
}

// refToNumberPrim: ES5 9.3 for primitives; ok=false when the string's value is
// not determined by the reference (decimal fractions / exponents).
func refToNumberPrim(p verifPrim) (float64, bool) {
	switch p.kind {
	case 0:
		return math.NaN(), true
	case 1:
		return 0, true
	case 2:
		if p.b {
			return 1, true
		}
		return 0, true
	case 3:
		return p.f, true
	}
	ok, known, v := refStringNumericLiteral(p.s)
	if !ok {
		return math.NaN(), true
	}
	return v, known
}

// refAbstractEquals: ES5 11.9.3 on primitives.
func refAbstractEquals(x, y verifPrim) (bool, bool) {
	if x.kind == y.kind {
		switch x.kind {
		case 0, 1:
			return true, true
		case 2:
			return x.b == y.b, true
		case 3:
			return x.f == y.f, true
		default:
			return x.s == y.s, true
		}
	}
	if x.kind <= 1 && y.kind <= 1 {
		return true, true
	}
	if x.kind <= 1 || y.kind <= 1 {
		return false, true
	}
	// number, string, boolean mixes compare as numbers
	a, ok1 := refToNumberPrim(x)
	b, ok2 := refToNumberPrim(y)
	return a == b, ok1 && ok2
}

// refLess: ES5 11.8.5 "x < y" on primitives: (result, undefined?, known?).
func refLess(x, y verifPrim) (bool, bool, bool) {
	if x.kind == 4 && y.kind == 4 {
		return x.s < y.s, false, true // code-unit order = byte order for the lengths used here (BMP only)
	}
	a, ok1 := refToNumberPrim(x)
	b, ok2 := refToNumberPrim(y)
	if a != a || b != b {
		return false, true, ok1 && ok2
	}
	return a < b, false, ok1 && ok2
}

// C05-H5: ==, !=, ===, !==, <, >, <=, >= on every pair of primitive operand
// kinds with symbolic payloads.
func VerifH_C05_mixed_comparison() {
	vm := New()
	x := verifPrimOperand(vm, "x")
	y := verifPrimOperand(vm, "y")
	op := []string{"==", "!=", "===", "!==", "<", ">", "<=", ">="}[verifChoose(8)]
	v, ok := verifRun(vm, "x "+op+" y")
	verifCover("reached")
	verifAssert(ok && v.IsBoolean(), "comparison of primitives yields a boolean")
	if !ok {
		return
	}
	got, _ := v.ToBoolean()
	switch op {
	case "==", "!=":
		eq, known := refAbstractEquals(x, y)
		if known {
			verifAssert(got == (eq == (op == "==")), "ES5 11.9.3 abstract equality")
		}
	case "===", "!==":
		eq := false
		if x.kind == y.kind {
			eq, _ = refAbstractEquals(x, y)
		}
		verifAssert(got == (eq == (op == "===")), "ES5 11.9.6 strict equality")
	default:
		var lt, undef, known bool
		switch op {
		case "<":
			lt, undef, known = refLess(x, y)
		case ">":
			lt, undef, known = refLess(y, x)
		case "<=":
			lt, undef, known = refLess(y, x)
			lt = !lt
		default:
			lt, undef, known = refLess(x, y)
			lt = !lt
		}
		if known {
			verifAssert(got == (lt && !undef), "ES5 11.8.1-4 relational operators (undefined => false)")
		}
	}
}

func refToBooleanPrim(p verifPrim) bool {
	switch p.kind {
	case 2:
		return p.b
	case 3:
		return !(p.f == 0 || p.f != p.f)
	case 4:
		return len(p.s) != 0
	}
	return false
}

func verifSamePrim(v Value, p verifPrim) bool {
	switch p.kind {
	case 0:
		return v.IsUndefined()
	case 1:
		return v.IsNull()
	case 2:
		b, _ := v.ToBoolean()
		return v.IsBoolean() && b == p.b
	case 3:
		f, _ := v.ToFloat()
		return v.IsNumber() && sameF64(f, p.f)
	}
	return v.IsString() && v.String() == p.s
}

// C05: &&, ||, ?:, ! and typeof on primitives of every kind (11.4.3, 11.4.9, 11.11, 11.12).
func VerifH_C05_logical_typeof() {
	vm := New()
	x := verifPrimOperand(vm, "x")
	y := verifPrimOperand(vm, "y")
	tx := refToBooleanPrim(x)
	verifCover("reached")
	switch verifChoose(5) {
	case 0:
		v, ok := verifRun(vm, "x && y")
		if ok {
			if tx {
				verifAssert(verifSamePrim(v, y), "11.11: x && y is y when ToBoolean(x)")
			} else {
				verifAssert(verifSamePrim(v, x), "11.11: x && y is x otherwise (the operand itself, not a boolean)")
			}
		}
	case 1:
		v, ok := verifRun(vm, "x || y")
		if ok {
			if tx {
				verifAssert(verifSamePrim(v, x), "11.11: x || y is x when ToBoolean(x)")
			} else {
				verifAssert(verifSamePrim(v, y), "11.11: x || y is y otherwise")
			}
		}
	case 2:
		v, ok := verifRun(vm, "x ? 'yes' : 'no'")
		if ok {
			verifAssert((v.String() == "yes") == tx, "11.12: the condition is ToBoolean(x)")
		}
	case 3:
		v, ok := verifRun(vm, "!x")
		if ok {
			b, _ := v.ToBoolean()
			verifAssert(v.IsBoolean() && b == !tx, "11.4.9: !x")
		}
	default:
		v, ok := verifRun(vm, "typeof x")
		if ok {
			want := []string{"undefined", "object", "boolean", "number", "string"}[x.kind]
			verifAssert(v.String() == want, "11.4.3 typeof table")
		}
	}
}
