//go:build verif

package otto

// Array.prototype.indexOf / lastIndexOf / slice on a 4-element array with an
// optional hole, relative-index arguments any double (ES5 15.4.4.10/14/15).
func VerifH_C08_methods() {
	vm := New()
	hole := verifNondetBool()
	if hole {
		vm.Run("var a = [10, , 10, 30]")
	} else {
		vm.Run("var a = [10, 20, 10, 30]")
	}
	elems := []float64{10, 20, 10, 30}
	present := []bool{true, !hole, true, true}
	n := 4
	p := verifNondetFloat64()
	q := verifNondetFloat64()
	vm.Set("p", p)
	vm.Set("q", q)
	ip, iq := clampInt(p), clampInt(q)
	which := verifParam("case", -1)
	if which < 0 {
		which = verifChoose(4)
	}
	target := 10.0
	if which < 2 {
		target = []float64{10, 20, 99}[verifChoose(3)]
	}
	vm.Set("x", target)
	verifCover("reached")
	switch which {
	case 0: // indexOf(x, p)
		k := ip
		if k < 0 {
			k = verifMax(n+k, 0)
		}
		want := -1
		for ; k < n; k++ {
			if present[k] && elems[k] == target {
				want = k
				break
			}
		}
		v, ok := verifRun(vm, "a.indexOf(x, p)")
		if ok {
			f, _ := v.ToFloat()
			verifAssert(f == float64(want), "ES5 15.4.4.14 indexOf")
		}
	case 1: // lastIndexOf(x, p)
		k := ip
		if k >= 0 {
			k = verifMin(k, n-1)
		} else {
			k = n + k
		}
		want := -1
		for ; k >= 0; k-- {
			if present[k] && elems[k] == target {
				want = k
				break
			}
		}
		v, ok := verifRun(vm, "a.lastIndexOf(x, p)")
		if ok {
			f, _ := v.ToFloat()
			verifAssert(f == float64(want), "ES5 15.4.4.15 lastIndexOf")
		}
	case 2: // slice(p, q)
		from, to := ip, iq
		if from < 0 {
			from = verifMax(n+from, 0)
		} else {
			from = verifMin(from, n)
		}
		if to < 0 {
			to = verifMax(n+to, 0)
		} else {
			to = verifMin(to, n)
		}
		v, ok := verifRun(vm, "var r = a.slice(p, q); r.length")
		if ok {
			f, _ := v.ToFloat()
			verifAssert(f == float64(verifMax(to-from, 0)), "ES5 15.4.4.10 slice: length")
			if to > from {
				first, _ := vm.Run("(0 in r) ? r[0] : -1")
				ff, _ := first.ToFloat()
				if present[from] {
					verifAssert(ff == elems[from], "slice: first element")
				} else {
					verifAssertK(ff == -1, "C08-slice-fills-holes", true, "slice keeps holes")
				}
			}
		}
	default: // length truncation stops at a non-configurable element (15.4.5.1)
		idx := verifChoose(4)
		if !present[idx] {
			return
		}
		vm.Set("i", idx)
		nl := verifChoose(5)
		vm.Set("nl", nl)
		v, ok := verifRun(vm, "Object.defineProperty(a, String(i), {configurable: false}); a.length = nl; a.length")
		if ok {
			f, _ := v.ToFloat()
			want := nl
			if idx >= nl {
				want = idx + 1
			}
			verifAssert(f == float64(want), "ES5 15.4.5.1: truncation stops above a non-configurable element")
			h, _ := vm.Run("a.hasOwnProperty(String(i))")
			hb, _ := h.ToBoolean()
			verifAssert(hb, "a non-configurable element is never deleted")
			mx, _ := vm.Run("var m = -1; for (var k in a) { if (+k > m) m = +k } m < a.length")
			mb, _ := mx.ToBoolean()
			verifAssert(mb, "length is greater than every index")
		}
	}
}
