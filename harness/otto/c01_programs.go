//go:build verif

package otto

import "github.com/robertkrimen/otto/parser"

// C01 (in part): template programs whose control data (discriminants, loop
// bounds, branch conditions, operands, this-values) are symbolic, run through
// the real interpreter by one of the five submission routes, against a
// reference written directly in Go for each template: the sequence of host
// calls with their arguments, the completion value, and the class of the
// uncaught exception.

// verifSubmit hands src to vm by one of the five routes of the property.
func verifSubmit(vm *Otto, src string, route int) (Value, error) {
	switch route {
	case 0:
		return vm.Run(src)
	case 1:
		s, err := vm.Compile("", src)
		if err != nil {
			return Value{}, err
		}
		return vm.Run(s)
	case 2:
		prog, err := parser.ParseFile(nil, "", src, 0)
		if err != nil {
			return Value{}, err
		}
		return vm.Run(prog)
	case 3:
		return vm.Eval(src)
	default:
		// a Script compiled and already run on another runtime
		other := New()
		other.Set("rec", func(call FunctionCall) Value { return Value{} })
		other.Set("t", func(call FunctionCall) Value { return call.Argument(1) })
		for _, name := range []string{"x", "y", "n", "m", "a", "b", "c", "c1", "c2", "c3", "c4", "c5", "p", "q", "lim", "body"} {
			other.Set(name, 0) // different data on the first runtime; every template terminates with it
		}
		s, err := other.Compile("", src)
		if err != nil {
			return Value{}, err
		}
		other.Run(s)
		return vm.Run(s)
	}
}

type verifRec struct {
	got []Value
}

func (r *verifRec) install(vm *Otto) {
	vm.Set("rec", func(call FunctionCall) Value {
		r.got = append(r.got, call.Argument(0))
		return Value{}
	})
	// t(id, v): records id, returns v (for evaluation-order observations)
	vm.Set("t", func(call FunctionCall) Value {
		r.got = append(r.got, call.Argument(0))
		return call.Argument(1)
	})
}

func verifSameJS(a, b Value) bool {
	if a.IsNumber() || b.IsNumber() {
		if !a.IsNumber() || !b.IsNumber() {
			return false
		}
		x, _ := a.ToFloat()
		y, _ := b.ToFloat()
		return sameF64(x, y)
	}
	if a.IsUndefined() || b.IsUndefined() {
		return a.IsUndefined() && b.IsUndefined()
	}
	if a.IsBoolean() != b.IsBoolean() || a.IsString() != b.IsString() {
		return false
	}
	return a.String() == b.String()
}

func (r *verifRec) same(want []Value) bool {
	if len(r.got) != len(want) {
		return false
	}
	for i := range want {
		if !verifSameJS(r.got[i], want[i]) {
			return false
		}
	}
	return true
}

func verifNums(xs ...float64) []Value {
	out := make([]Value, len(xs))
	for i, x := range xs {
		out[i] = numV(x)
	}
	return out
}

func verifRoute() int {
	r := verifParam("route", -1)
	if r < 0 {
		r = verifChoose(5)
	}
	return r
}

// switch: strict-equality matching in source order, default in the middle,
// fall-through, case expressions evaluated only until the first match.
func VerifH_C01_switch() {
	vm := New()
	var r verifRec
	r.install(vm)
	x, y := verifNondetFloat64(), verifNondetFloat64()
	vm.Set("x", x)
	vm.Set("y", y)
	src := "switch (x) { case t(11, 1): rec(1); case t(12, y): rec(2); break; default: rec(3); case t(13, 3): rec(4) } rec(9); x"
	v, err := verifSubmit(vm, src, verifRoute())
	verifCover("reached")
	var want []Value
	switch {
	case x == 1:
		want = verifNums(11, 1, 2, 9)
	case x == y:
		want = verifNums(11, 12, 2, 9)
	case x == 3:
		want = verifNums(11, 12, 13, 4, 9)
	default:
		want = verifNums(11, 12, 13, 3, 4, 9)
	}
	verifAssert(err == nil, "the program completes normally")
	verifAssert(r.same(want), "12.11 switch: cases tested in order with ===, default last, fall-through until break")
	verifAssert(verifSameJS(v, numV(x)), "completion value of the last expression statement")
	// the discriminant is evaluated once, before any case expression; a clause
	// ending in break keeps the value produced so far
	r.got = nil
	src2 := "var d = x; function u(id, v) { rec(id); d = 77; return v } 5; switch (d) { case u(21, y): rec(1); 6; break; case u(22, x): rec(2); 7; break; case 77: rec(3); 8; break; default: rec(4); 9 }"
	v2, err2 := verifSubmit(vm, src2, verifRoute())
	var want2 []Value
	var cv float64
	switch {
	case x == y:
		want2, cv = verifNums(21, 1), 6
	case x == x:
		want2, cv = verifNums(21, 22, 2), 7
	default: // NaN never matches, not even the clause that repeats it; 77 is not the discriminant
		want2, cv = verifNums(21, 22, 4), 9
	}
	verifAssert(err2 == nil && r.same(want2), "12.11: the discriminant is evaluated once, before the case expressions run")
	verifAssert(verifSameJS(v2, numV(cv)), "12.11: a clause ending in break keeps the completion value produced so far")
}

// labelled break / continue through nested for loops, do-while continue.
func VerifH_C01_loops() {
	vm := New()
	var r verifRec
	r.install(vm)
	mx := verifParam("maxn", 3) + 1
	n, m, a, b := verifChoose(mx), verifChoose(mx), verifChoose(mx), verifChoose(mx)
	lim := verifNondetFloat64() // the bound of the do-while loop: any double
	vm.Set("n", n)
	vm.Set("m", m)
	vm.Set("a", a)
	vm.Set("b", b)
	vm.Set("lim", lim)
	src := "outer: for (var i = 0; i < n; i++) { for (var j = 0; j < m; j++) { if (j == a) continue outer; if (i == b) break outer; rec(i * 10 + j) } rec(100 + i) } rec(i);" +
		"var k = 0; do { k++; if (k == a) continue; if (k > 3) break; rec(200 + k) } while (k < lim); rec(k);" +
		"var w = 0; inner: while (w < n) { w++; switch (w) { case 1: continue inner; case 2: break; default: break inner } rec(300 + w) } w"
	v, err := verifSubmit(vm, src, verifRoute())
	verifCover("reached")
	var want []float64
	i := 0
outer:
	for ; i < n; i++ {
		for j := 0; j < m; j++ {
			if j == a {
				continue outer
			}
			if i == b {
				break outer
			}
			want = append(want, float64(i*10+j))
		}
		want = append(want, float64(100+i))
	}
	want = append(want, float64(i))
	k := 0
	for {
		k++
		if k != a {
			if k > 3 {
				break
			}
			want = append(want, float64(200+k))
		}
		if !(float64(k) < lim) {
			break
		}
	}
	want = append(want, float64(k))
	w := 0
inner:
	for w < n {
		w++
		switch w {
		case 1:
			continue inner
		case 2:
		default:
			break inner
		}
		want = append(want, float64(300+w))
	}
	verifAssert(err == nil, "the program completes normally")
	verifAssert(r.same(verifNums(want...)), "12.6-12.8, 12.12: labelled break/continue, continue in do-while reaches the test, break inside switch inside a loop")
	verifAssert(verifSameJS(v, numV(float64(w))), "completion value")
}

// try / catch / finally completion rules inside a function and inside a loop.
func VerifH_C01_try() {
	vm := New()
	var r verifRec
	r.install(vm)
	c1, c2, c3, c4, c5 := verifNondetBool(), verifNondetBool(), verifNondetBool(), verifNondetBool(), verifNondetBool()
	a, b := verifChoose(4), verifChoose(4)
	x := verifNondetFloat64()
	vm.Set("c1", c1)
	vm.Set("c2", c2)
	vm.Set("c3", c3)
	vm.Set("c4", c4)
	vm.Set("c5", c5)
	vm.Set("a", a)
	vm.Set("b", b)
	vm.Set("x", x)
	src := "function f() { try { rec(1); if (c1) throw x; if (c2) return 1; rec(2) } catch (e) { rec(e); if (c3) return 2; if (c4) throw 8 } finally { rec(3); if (c5) return 3 } rec(4); return 4 }" +
		"var r; try { r = f() } catch (e) { r = 100 + e } rec(r);" +
		"for (var i = 0; i < 3; i++) { try { if (i == a) continue; if (i == b) break; rec(10 + i) } finally { rec(20 + i) } } rec(i);" +
		"var e = 40; try { throw 41 } catch (e) { rec(e) } finally { rec(e) } rec(e);" +
		"(function () { try { return t(31, 5) } finally { rec(32) } })()"
	v, err := verifSubmit(vm, src, verifRoute())
	verifCover("reached")
	want := verifNums(1)
	const (
		none = iota
		ret
		thr
	)
	pending, pv := none, 0.0
	if c1 {
		want = append(want, numV(x))
		if c3 {
			pending, pv = ret, 2
		} else if c4 {
			pending, pv = thr, 8
		}
	} else if c2 {
		pending, pv = ret, 1
	} else {
		want = append(want, numV(2))
	}
	want = append(want, numV(3))
	if c5 {
		pending, pv = ret, 3
	}
	switch pending {
	case none:
		want = append(want, numV(4), numV(4))
	case ret:
		want = append(want, numV(pv))
	default:
		want = append(want, numV(100+pv))
	}
	i := 0
	for ; i < 3; i++ {
		if i == a {
			want = append(want, numV(float64(20+i)))
			continue
		}
		if i == b {
			want = append(want, numV(float64(20+i)))
			break
		}
		want = append(want, numV(float64(10+i)), numV(float64(20+i)))
	}
	want = append(want, numV(float64(i)), numV(41), numV(40), numV(40), numV(31), numV(32))
	verifAssert(err == nil, "the program completes normally")
	verifAssert(r.same(want), "12.14 try/catch/finally: finally always runs, its abrupt completion overrides, otherwise the pending completion continues")
	verifAssert(verifSameJS(v, numV(5)), "the return value computed before finally is the result")
}

// hoisting, closures over loop variables and parameters.
func VerifH_C01_closures() {
	vm := New()
	var r verifRec
	r.install(vm)
	x := verifNondetFloat64()
	n := verifChoose(4)
	vm.Set("x", x)
	vm.Set("n", n)
	src := "rec(typeof g == 'function' ? 1 : 0); rec(v === undefined ? 1 : 0); rec(typeof later); var v = x; function g() { return v } rec(g()); var later = function () {};" +
		"var fs = []; for (var i = 0; i < n; i++) { fs.push(function () { return i }) } for (var k = 0; k < fs.length; k++) rec(fs[k]());" +
		"var mk = function (a) { return function (b) { a = a + b; return a } }; var acc = mk(x); acc(1); rec(acc(2)); rec(mk(0)(5));" +
		"function outerFn() { var v = 40; function innerFn() { return v } v = 41; return innerFn } rec(outerFn()());" +
		"rec((function fx() { fx = x; return typeof fx })()); rec((function fy(fy) { return fy })(x)); rec((function fz() { var fz = x; return fz })());" +
		"(function named(k) { return k <= 0 ? 50 : named(k - 1) + 1 })(n)"
	v, err := verifSubmit(vm, src, verifRoute())
	verifCover("reached")
	want := []Value{numV(1), numV(1), toValue("undefined"), numV(x)}
	for i := 0; i < n; i++ {
		want = append(want, numV(float64(n)))
	}
	want = append(want, numV((x+1)+2), numV(5), numV(41), toValue("function"), numV(x), numV(x))
	verifAssert(err == nil, "the program completes normally")
	verifAssert(r.same(want), "10.5 declaration binding instantiation (function and var hoisting); closures share the variable, not its value")
	verifAssert(verifSameJS(v, numV(float64(50+n))), "a named function expression can call itself")
}

// this-binding for every call form and every primitive this-argument;
// the arguments object's parameter aliasing.
func VerifH_C01_this_arguments() {
	vm := New()
	var r verifRec
	r.install(vm)
	kind := verifChoose(5)
	verifSetKind(vm, "x", kind, 1)
	p, q := verifNondetFloat64(), verifNondetFloat64()
	nargs := verifChoose(4)
	vm.Set("p", p)
	vm.Set("q", q)
	call := []string{"f()", "f(1)", "f(1, 2)", "f(1, 2, 3)"}[nargs]
	src := "var glob = this; function who() { return this === glob ? 1 : typeof this == 'object' ? 2 : 3 }" +
		"rec(who()); rec(who.call(x)); rec(who.apply(x)); var o = {m: who}; rec(o.m()); rec((0, o.m)()); rec(o['m']()); rec(who.bind(x)()); rec(who.bind(x).call(o)); rec(new who() instanceof who ? 4 : 5);" +
		"function BF() {} var BB = BF.bind(x); rec(new BF() instanceof BB); rec(new BB() instanceof BB); rec(new BB() instanceof BF); rec(({}) instanceof BB);" +
		"rec((function () { return who() })()); rec([who][0]() );" +
		"function f(a, b) { arguments[0] = p; b = q; return [a, arguments[1], arguments.length, f.length] } var r = " + call + "; rec(r[0]); rec(r[1]); rec(r[2]); rec(r[3]); r.length"
	v, err := verifSubmit(vm, src, verifRoute())
	verifCover("reached")
	boxed := 2.0
	if kind <= 1 {
		boxed = 1 // undefined / null this becomes the global object
	}
	want := verifNums(1, boxed, boxed, 2, 1, 2, boxed, boxed, 4)
	want = append(want, toValue(true), toValue(true), toValue(true), toValue(false), numV(1), numV(2))
	a, b := Value{}, Value{}
	if nargs >= 1 {
		a = numV(p)
	}
	if nargs >= 2 {
		b = numV(q)
	}
	want = append(want, a, b, numV(float64(nargs)), numV(2))
	verifAssert(err == nil, "the program completes normally")
	verifAssert(r.same(want), "10.4.3 this-binding per call form (undefined/null -> global, primitives boxed); 10.6 arguments aliases exactly the passed formal parameters")
	verifAssert(verifSameJS(v, numV(4)), "completion value")
}

// with, direct and indirect eval.
func VerifH_C01_with_eval() {
	vm := New()
	var r verifRec
	r.install(vm)
	x, y := verifNondetFloat64(), verifNondetFloat64()
	has := verifNondetBool()
	vm.Set("x", x)
	vm.Set("y", y)
	obj := "{v: x}"
	if !has {
		obj = "{u: x}"
	}
	src := "var v = 1; var o = " + obj + "; with (o) { rec(v); v = y; var w = 3 } rec(v); rec(o.v); rec(w);" +
		"var g = 10; function f() { var g = 20; return [eval('g'), (0, eval)('g'), eval('var h = 30; h'), typeof h, (function () { return eval('g') })()] } var r = f(); rec(r[0]); rec(r[1]); rec(r[2]); rec(r[3]); rec(r[4]); rec(typeof h);" +
		"(0, eval)('var viaIndirect = x'); rec(viaIndirect); eval('x')"
	v, err := verifSubmit(vm, src, verifRoute())
	verifCover("reached")
	var want []Value
	if has {
		want = []Value{numV(x), numV(1), numV(y), numV(3)}
	} else {
		want = []Value{numV(1), numV(y), {}, numV(3)}
	}
	want = append(want, numV(20), numV(10), numV(30), toValue("number"), numV(20), toValue("undefined"), numV(x))
	verifAssert(err == nil, "the program completes normally")
	verifAssert(r.same(want), "12.10 with: object environment first, assignment goes where the name resolves, var hoists to the function; 10.4.2/15.1.2.1 direct eval sees and extends the caller's variable environment, indirect eval the global one")
	verifAssert(verifSameJS(v, numV(x)), "completion value of a direct eval")
}

// completion values of statements (12.x "Return (normal, V, empty)"), as seen
// by Run/eval, and the class of an uncaught exception after some host calls.
func VerifH_C01_completion() {
	vm := New()
	var r verifRec
	r.install(vm)
	x, y := verifNondetFloat64(), verifNondetFloat64()
	c := verifNondetBool()
	n := 0
	vm.Set("x", x)
	vm.Set("y", y)
	vm.Set("c", c)
	viaEval := verifNondetBool()
	var body string
	var want Value
	brk := false
	sel := verifChoose(17)
	if sel == 2 || sel == 8 {
		n = verifChoose(4)
	}
	vm.Set("n", n)
	switch sel {
	case 0:
		body, want = "x; if (c) y", numV(x)
		if c {
			want = numV(y)
		}
	case 1:
		body, want = "x; var z = y", numV(x)
	case 2:
		body, want = "x; for (var i = 0; i < n; i++) { i }", numV(x)
		if n > 0 {
			want = numV(float64(n - 1))
		}
	case 3:
		body, want = "x; try { y } finally { 5 }", numV(y)
	case 4:
		body, want = "x; switch (c) { case true: y }", numV(x)
		if c {
			want = numV(y)
		}
	case 5:
		body, want = "x; function decl() { return 1 }", numV(x)
	case 6:
		body, want = "x; try { throw y } catch (e) { e }", numV(y)
	case 7:
		body, want = "x; with ({p: y}) p", numV(y)
	case 8:
		body, want = "x; var k = 0; while (k < n) { k++ }", numV(x)
		if n > 0 {
			want = numV(float64(n - 1)) // k++ yields the old value
		}
	case 9:
		body, want = "x; {}", numV(x)
	case 10:
		body, want = "x; ;", numV(x)
	case 11: // the value travels with the break completion (12.1 step 4, 12.12)
		body, want, brk = "l: { x; if (c) break l; y }", numV(y), true
		if c {
			want = numV(x)
		}
	case 13: // the value produced inside a nested block travels with break / continue
		body, want, brk = "x; do { 1; { y; if (c) break } 7 } while (false)", numV(7), true
		if c {
			want = numV(y)
		}
	case 14:
		body, want, brk = "x; for (var i = 0; i < 2; i++) { { y; if (c) continue } 9 }", numV(9), true
		if c {
			want = numV(y)
		}
	case 15:
		body, want, brk = "x; switch (1) { case 1: { y; if (c) break } 5 }", numV(5), true
		if c {
			want = numV(y)
		}
	case 16:
		body, want, brk = "l: { x; { y; if (c) break l } 6 }", numV(6), true
		if c {
			want = numV(y)
		}
	default:
		body, want, brk = "x; do { y; if (c) break; 7 } while (false)", numV(7), true
		if c {
			want = numV(y)
		}
	}
	verifLog(body)
	src := body
	if viaEval {
		vm.Set("body", body)
		src = "eval(body)"
	}
	v, err := verifSubmit(vm, src, verifRoute())
	verifCover("reached")
	verifAssert(err == nil, "the program completes normally")
	verifAssertK(verifSameJS(v, want), "C01-completion-value-through-break", brk && c, "12.x completion value (normal, V, empty) of the last value-producing statement")
}

// the class of an uncaught exception, and the host calls made before it.
func VerifH_C01_uncaught() {
	vm := New()
	var r verifRec
	r.install(vm)
	y := verifNondetFloat64()
	c := verifNondetBool()
	vm.Set("y", y)
	vm.Set("c", c)
	raise := []string{"null.p", "undefinedName", "new Array(-1)", "throw new SyntaxError('s')", "(void 0)()", "decodeURI('%')", "throw y"}
	classes := []string{"TypeError", "ReferenceError", "RangeError", "SyntaxError", "TypeError", "URIError", ""}
	k := verifChoose(len(raise))
	_, err2 := verifSubmit(vm, "rec(1); if (c) { "+raise[k]+" } rec(2)", verifRoute())
	verifCover("reached")
	if !c {
		verifAssert(err2 == nil && r.same(verifNums(1, 2)), "no exception: both host calls happen")
		return
	}
	verifAssert(err2 != nil && r.same(verifNums(1)), "an uncaught exception ends the program: later host calls do not happen")
	if err2 != nil && classes[k] != "" {
		msg := err2.Error()
		verifAssert(len(msg) >= len(classes[k]) && msg[:len(classes[k])] == classes[k], "the error returned by Run names the class of the uncaught exception")
	}
}

// for-in while the body deletes and adds properties (12.6.4): a property
// deleted before it is reached is not visited, none is visited twice, none of
// the others is skipped; a property added during the loop may or may not be
// visited (not asserted).
func VerifH_C01_forin_mutation() {
	vm := New()
	var r verifRec
	r.install(vm)
	at := verifChoose(4)  // at which step (0..3) the body deletes
	del := verifChoose(4) // which of a, b, c, d it deletes
	add := verifNondetBool()
	vm.Set("at", at)
	vm.Set("del", []string{"a", "b", "c", "d"}[del])
	vm.Set("add", add)
	src := "var o = {a: 1, b: 2, c: 3, d: 4}, step = 0, seen = ''; for (var k in o) { if (k.length == 1) seen += k; if (step == at) { delete o[del]; if (add) o.zz = 9 } step++ } seen"
	v, err := verifSubmit(vm, src, verifRoute())
	verifCover("reached")
	verifAssert(err == nil, "the program completes normally")
	// keys are visited in creation order (what otto and every engine does for such objects)
	want := ""
	for i, k := range []string{"a", "b", "c", "d"} {
		deletedBefore := i > at && i == del // deleted at step `at`, before being reached
		if !deletedBefore {
			want += k
		}
	}
	verifAssert(v.String() == want, "12.6.4: a property deleted before it is reached is not visited; the others exactly once")
}

// Scope-chain details: labelled for-in with nested loops, the with object
// leaving the scope chain when its body throws, `var` initialisers inside with
// and catch, the Function constructor's global scope, eval-declared variables
// inside catch / with, constructors whose prototype property is not an object,
// and a function that deletes from its arguments object being called again
// (also through a Script compiled on another runtime).
func VerifH_C01_scopes() {
	vm := New()
	var r verifRec
	r.install(vm)
	x, y := verifNondetFloat64(), verifNondetFloat64()
	verifAssume(x == x && y == y) // the templates above cover NaN operands; here the bindings are the subject
	a, b := verifChoose(3), verifChoose(3)
	pk := verifChoose(5)
	vm.Set("x", x)
	vm.Set("y", y)
	vm.Set("a", a)
	vm.Set("b", b)
	verifSetKind(vm, "P", pk, 1) // undefined, null, boolean, number, string: not an object
	src := "" +
		// labelled for-in, nested loop with continue L / break L
		"var keys = {p0: 0, p1: 1, p2: 2}; L: for (var k in keys) { for (var j = 0; j < 3; j++) { if (j == a) continue L; if (keys[k] == b) break L; rec(keys[k] * 10 + j) } rec(90 + keys[k]) }" +
		// with object leaves the scope chain when the body throws
		"var sv = x; try { with ({sv: y}) { rec(sv); throw 1 } } catch (e1) { rec(sv) } rec(sv);" +
		"function fw() { var lv = x; try { with ({lv: y}) { throw 2 } } catch (e1) { rec(lv) } finally { rec(lv) } return lv } rec(fw());" +
		// var with initialiser inside with / catch assigns where the name resolves
		"function fv(o) { with (o) { var q = y } return [q, o.q] } var rv = fv({q: x}); rec(rv[0]); rec(rv[1]);" +
		"function fc() { try { throw x } catch (ce) { var ce = y; rec(ce) } return ce } rec(fc());" +
		// Function constructor: global scope only
		"var gx = x; function ff() { var gx = y; return [new Function('return gx')(), Function('return typeof lv2')()] } var lv2r = ff(); rec(lv2r[0]); rec(lv2r[1]);" +
		// eval-declared vars inside catch / with go to the function's variable environment
		"function fe() { try { throw 1 } catch (e3) { eval('var ye = y') } return ye } rec(fe());" +
		"function fe2(o) { with (o) { eval('var ze = x') } return [ze, 'ze' in o] } var re2 = fe2({}); rec(re2[0]); rec(re2[1]);" +
		// constructor whose prototype property is not an object
		"function G() { this.v = x } G.prototype = P; var g = new G(); rec(Object.getPrototypeOf(g) === Object.prototype); rec(g instanceof Object); rec(typeof g.hasOwnProperty); rec(g.v);" +
		// delete from arguments, then call again
		"function fd(p, q) { delete arguments[0]; p = y; return [p, arguments[0], arguments.length] } var d1 = fd(x, 1), d2 = fd(x, 2); rec(d1[0]); rec(d1[1]); rec(d2[0]); rec(d2[1]); rec(d2[2]);" +
		"function fr(p, q) { delete arguments[0]; return p + q } rec(fr(x, 1)); rec(fr(x, 2)); d2.length"
	route := []int{0, 1, 4}[verifChoose(3)] // source text, compiled Script, Script first run on another runtime
	v, err := verifSubmit(vm, src, route)
	verifCover("reached")
	var want []Value
	// labelled for-in
forin:
	for kv := 0; kv < 3; kv++ {
		for j := 0; j < 3; j++ {
			if j == a {
				continue forin
			}
			if kv == b {
				break forin
			}
			want = append(want, numV(float64(kv*10+j)))
		}
		want = append(want, numV(float64(90+kv)))
	}
	want = append(want, numV(y), numV(x), numV(x)) // with + throw at top level
	want = append(want, numV(x), numV(x), numV(x)) // inside a function: catch, finally, return
	want = append(want, Value{}, numV(y))          // var q = y inside with(o) where o has q
	want = append(want, numV(y), Value{})          // catch (ce) { var ce = y }: the parameter is assigned, the hoisted var stays undefined
	want = append(want, numV(x), toValue("undefined"))
	want = append(want, numV(y))
	want = append(want, numV(x), toValue(false))
	want = append(want, toValue(true), toValue(true), toValue("function"), numV(x))
	want = append(want, numV(y), Value{}, numV(y), Value{}, numV(2))
	want = append(want, numV(x+1), numV(x+2))
	verifAssert(err == nil, "the program completes normally")
	verifAssert(r.same(want), "10.2-10.6, 12.6.4, 12.10, 12.14, 13.2.2, 15.3.2.1: scope chain and binding details")
	verifAssert(verifSameJS(v, numV(3)), "completion value")
	if route == 4 || route == 1 {
		// the same compiled program again on a fresh runtime: nothing of the first run may stick to it
		s, cerr := vm.Compile("", src)
		if cerr == nil {
			first := New()
			var r1 verifRec
			r1.install(first)
			first.Set("x", x)
			first.Set("y", y)
			first.Set("a", a)
			first.Set("b", b)
			verifSetKind(first, "P", pk, 1)
			first.Run(s)
			second := New()
			var r2 verifRec
			r2.install(second)
			second.Set("x", x)
			second.Set("y", y)
			second.Set("a", a)
			second.Set("b", b)
			verifSetKind(second, "P", pk, 1)
			_, e2 := second.Run(s)
			verifAssert(e2 == nil && r2.same(want), "a Script reused on another runtime behaves as on the first (execution does not modify it)")
		}
	}
}
