//go:build verif

package otto

func refHexVal(c byte) int {
	switch {
	case '0' <= c && c <= '9':
		return int(c - '0')
	case 'a' <= c && c <= 'f':
		return int(c-'a') + 10
	case 'A' <= c && c <= 'F':
		return int(c-'A') + 10
	}
	return -1
}

// decodeURI / decodeURIComponent on prefix + "%" + two arbitrary ASCII bytes
// + one more arbitrary ASCII byte (ES5 15.1.3): a single escape of an ASCII
// code unit decodes to that character, except that decodeURI keeps the escapes
// of the reserved set and '#' as written; anything malformed is a URIError.
func VerifH_C13_decodeURI() {
	vm := New()
	h := verifNondetString(3)
	verifAssume(h[0] < 0x80 && h[1] < 0x80 && h[2] < 0x80 && h[2] != '%' && h[2] != '+')
	s := "a%" + h
	vm.Set("s", s)
	comp := verifNondetBool()
	fn := "decodeURI"
	if comp {
		fn = "decodeURIComponent"
	}
	v, ok := verifRun(vm, "var res; try { res = "+fn+"(s) } catch (e) { res = e instanceof URIError ? 'URIError!' : 'other!' } res")
	verifCover("reached")
	if !ok {
		return
	}
	got := v.String()
	hi, lo := refHexVal(h[0]), refHexVal(h[1])
	if hi < 0 || lo < 0 {
		verifAssert(got == "URIError!", "15.1.3: '%' not followed by two hex digits is a URIError")
		return
	}
	b := byte(hi*16 + lo)
	if b >= 0x80 {
		verifAssert(got == "URIError!", "15.1.3: an incomplete UTF-8 escape sequence is a URIError")
		return
	}
	reserved := false
	for _, c := range []byte(";/?:@&=+$,#") {
		if b == c {
			reserved = true
		}
	}
	if reserved && !comp {
		verifAssert(got == s, "15.1.3.1 decodeURI keeps reserved escapes exactly as written")
	} else {
		verifAssert(got == "a"+string([]byte{b})+string([]byte{h[2]}), "15.1.3: the escape decodes to its character")
	}
}
