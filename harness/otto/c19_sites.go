//go:build verif

package otto

import "github.com/robertkrimen/otto/file"

// C19-H4: every active call is on the trace with the line and column of its
// call site, for every call form, wherever white space and line terminators
// (symbolic bytes) put the call site.

type verifCallForm struct {
	setup string // one line; the innermost function raises a ReferenceError at `boom`
	inner string // name of the innermost function
	call  string // the call site, placed inside function outer
	off   int    // offset of the recorded position inside call (start of the callee reference)
	known bool   // callee is not a reference: the calling frame is missing (known finding)
}

var verifCallForms = []verifCallForm{
	{"function f(){ boom }", "f", "f()", 0, false},
	{"var o = {m: function m(){ boom }}", "m", "o.m()", 0, false},
	{"var o = {m: function m(){ boom }}", "m", "o[\"m\"]()", 0, false},
	{"var o = {a: {m: function m(){ boom }}}", "m", "o.a.m(1, 2)", 0, false},
	{"function F(){ boom }", "F", "new F()", 4, false},
	{"function F(){ boom }", "F", "new F", 4, false},
	{"var o = {F: function F(){ boom }}", "F", "new o.F(1)", 4, false},
	{"var o = {F: function F(){ boom }}", "F", "new o['F']", 4, false},
	{"function f(){ boom }", "f", "f.call(null)", 0, false},
	{"function f(){ boom }", "f", "f.apply(null, [])", 0, false},
	{"function f(){ boom }", "f", "[1].forEach(f)", 0, false},
	{"function f(){ boom }", "f", "1 + f()", 4, false},
	{"function f(){ boom }", "f", "x = [f(1)]", 5, false},
	{"function f(){ boom }", "f", "if (f()) ;", 4, false},
	{"function f(){ boom }", "f", "return f()", 7, false},
	{"function f(){ boom }", "f", "(0, f)()", 0, true},
	{"function f(){ return function g(){ boom } }", "g", "f()()", 0, true},
	{"var u", "iife", "(function iife(){ boom })()", 0, true},
}

// verifPad: 0..max symbolic bytes of white space / line terminators.
func verifPad(max int) string {
	n := verifChoose(max + 1)
	b := verifNondetString(n)
	for i := 0; i < n; i++ {
		verifAssume(b[i] == ' ' || b[i] == '\t' || b[i] == '\n' || b[i] == '\r')
	}
	return b
}

// refLineCol: ES5 7.3 line counting (LF, CR, CR LF once) for an ASCII source.
func refLineCol(src string, off int) (int, int) {
	line, col := 1, 1
	for i := 0; i < off; i++ {
		c := src[i]
		if c == '\n' || (c == '\r' && !(i+1 < len(src) && src[i+1] == '\n')) {
			line++
			col = 1
		} else if c == '\r' {
			// first half of CR LF: the LF ends the line
		} else {
			col++
		}
	}
	return line, col
}

func VerifH_C19_call_sites() {
	vm := New()
	f := verifCallForms[verifChoose(len(verifCallForms))]
	pad2, pad3 := verifPad(verifParam("pad", 2)), verifPad(verifParam("pad", 2))
	head := f.setup + "\nfunction outer(){\n" + pad2
	src := head + f.call + "\n}\n" + pad3 + "outer()"
	verifLog(f.call)
	_, err := vm.Run(src)
	verifCover("reached")
	oe, isOtto := err.(*Error)
	verifAssert(isOtto && oe.name == "ReferenceError", "the program ends in the ReferenceError raised in the innermost function")
	if !isOtto {
		return
	}
	var frames []frame
	for _, fr := range oe.trace {
		if !fr.native {
			frames = append(frames, fr)
		}
	}
	verifAssertK(len(frames) == 3, "C19-callee-form-frame-missing", f.known, "every active script call is on the trace: innermost function, outer, program")
	if len(frames) < 2 {
		return
	}
	check := func(fr frame, callee string, off int, what string) {
		verifAssert(fr.callee == callee, what+": callee name")
		if fr.file == nil {
			verifAssert(false, what+": has a file")
			return
		}
		pos := fr.file.Position(file.Idx(fr.offset))
		if pos == nil {
			verifAssert(false, what+": has a position")
			return
		}
		line, col := refLineCol(src, off)
		verifAssert(pos.Line == line && pos.Column == col, what+": line and column of the call site")
	}
	boom := 0
	for i := 0; i+4 <= len(f.setup); i++ {
		if f.setup[i:i+4] == "boom" {
			boom = i
		}
	}
	if f.inner == "iife" {
		boom = len(head) + 18
	}
	check(frames[0], f.inner, boom, "innermost frame")
	if len(frames) == 3 {
		check(frames[1], "outer", len(head)+f.off, "calling frame")
	}
	check(frames[len(frames)-1], "", len(src)-7, "program frame")
}

// C19-H5: the error Run returns for an uncaught exception reads 'Name:
// message' of the thrown value as the script left it (15.11.4.4 layout: only
// the name when the message is empty and vice versa); a thrown primitive or
// plain object is reported by its string conversion.
func VerifH_C19_uncaught_text() {
	vm := New()
	nn, mn := verifChoose(3), verifChoose(3)
	name, msg := verifNondetString(nn), verifNondetString(mn)
	for i := 0; i < nn; i++ {
		verifAssume(name[i] >= 0x20 && name[i] < 0x7f)
	}
	for i := 0; i < mn; i++ {
		verifAssume(msg[i] >= 0x20 && msg[i] < 0x7f)
	}
	vm.Set("N", name)
	vm.Set("M", msg)
	ctor := []string{"Error", "TypeError", "RangeError"}[verifChoose(3)]
	var script, want string
	layout := func(n, m string) string {
		if n == "" {
			return m
		}
		if m == "" {
			return n
		}
		return n + ": " + m
	}
	switch verifChoose(6) {
	case 0:
		script, want = "throw new "+ctor+"(M)", layout(ctor, msg)
	case 1:
		script, want = "var e = new "+ctor+"('orig'); e.name = N; e.message = M; throw e", layout(name, msg)
	case 2:
		script, want = "var e = new "+ctor+"(M); e.name = N; throw e", layout(name, msg)
	case 3:
		script, want = "function f() { var e = new "+ctor+"('orig'); e.message = M; throw e } f()", layout(ctor, msg)
	case 4:
		script, want = "throw M", msg
	default:
		script, want = "throw {toString: function () { return M }}", msg
	}
	verifLog(script)
	var err error
	kind, _ := verifCatch(func() { _, err = vm.Run(script) })
	verifCover("reached")
	verifAssert(kind == verifNormal && err != nil, "the uncaught exception comes back from Run as an error")
	if kind != verifNormal || err == nil {
		return
	}
	verifAssert(err.Error() == want, "the error's text is 'Name: message' of the thrown value as the script left it")
	// and the runtime is reusable
	v, e2 := vm.Run("1 + 1")
	f, _ := v.ToFloat()
	verifAssert(e2 == nil && f == 2, "later scripts run normally")
}

// C19-H6: the innermost frame of an interpreter-raised error points at the
// failing expression (line and column of its start), for every member-access,
// call and reference form, wherever symbolic white space / line terminators put it.
var verifRaiseForms = []struct {
	expr  string
	class string
}{
	{"boom", "ReferenceError"}, {"u.p", "TypeError"}, {"u[k]", "TypeError"}, {"u.p.q", "TypeError"}, {"u[k][k]", "TypeError"},
	{"u.p = 1", "TypeError"}, {"u[k] = 1", "TypeError"}, {"n.p", "TypeError"}, {"n[k]", "TypeError"}, {"u()", "TypeError"},
	{"o.m()", "TypeError"}, {"o[k]()", "TypeError"}, {"n.f()", "TypeError"}, {"u.p++", "TypeError"}, {"delete u[k]", "TypeError"},
}

func VerifH_C19_raise_sites() {
	vm := New()
	f := verifRaiseForms[verifChoose(len(verifRaiseForms))]
	pad := verifPad(verifParam("pad", 2))
	head := "var u, n = null, k = 'kk', o = {};\nfunction f(){\n" + pad
	src := head + f.expr + "\n}\nf()"
	verifLog(f.expr)
	_, err := vm.Run(src)
	verifCover("reached")
	oe, isOtto := err.(*Error)
	verifAssert(isOtto && oe.name == f.class, "the program ends in the expected native error")
	if !isOtto || len(oe.trace) == 0 {
		return
	}
	fr := oe.trace[0]
	verifAssert(fr.callee == "f" && !fr.native, "innermost frame is the function that raised")
	if fr.file == nil {
		verifAssert(false, "innermost frame has a file")
		return
	}
	pos := fr.file.Position(file.Idx(fr.offset))
	if pos == nil {
		verifAssert(false, "innermost frame has a position")
		return
	}
	off := len(head)
	if f.expr == "delete u[k]" {
		off += 7 // the position is that of the member expression
	}
	line, col := refLineCol(src, off)
	verifAssert(pos.Line == line && pos.Column == col, "line and column of the failing expression")
}
