//go:build verif

package otto

// Harness primitives. The symbolic engine intercepts calls to these by name
// and never executes the bodies; the bodies are the native (replay) semantics:
// they read the replay vector produced from a solver model.

import (
	"encoding/json"
	"fmt"
	"math"
	"os"
	"reflect"
	goruntime "runtime"
)

type verifReplayState struct {
	Harness string         `json:"harness"`
	Vector  []uint64       `json:"vector"`
	Kinds   []string       `json:"kinds"`
	Params  map[string]int `json:"params"`
	Known   []string       `json:"known_open"`
	pos    int
	Fails  []string
	Logs   []string
	Covers []string
}

var verifRS = &verifReplayState{}

func verifLoadReplay(path string) (string, error) {
	data, err := os.ReadFile(path)
	if err != nil {
		return "", err
	}
	verifRS = &verifReplayState{}
	err = json.Unmarshal(data, verifRS)
	return verifRS.Harness, err
}

// verifParam reads a bound chosen by the check configuration (tier).
func verifParam(name string, def int) int {
	if v, ok := verifRS.Params[name]; ok {
		return v
	}
	return def
}

func verifNext() uint64 {
	if verifRS.pos >= len(verifRS.Vector) {
		verifRS.pos++
		return 0
	}
	v := verifRS.Vector[verifRS.pos]
	verifRS.pos++
	return v
}

func verifNondetBool() bool       { return verifNext()&1 != 0 }
func verifNondetInt8() int8       { return int8(verifNext()) }
func verifNondetInt16() int16     { return int16(verifNext()) }
func verifNondetInt32() int32     { return int32(verifNext()) }
func verifNondetInt64() int64     { return int64(verifNext()) }
func verifNondetInt() int         { return int(verifNext()) }
func verifNondetUint8() uint8     { return uint8(verifNext()) }
func verifNondetUint16() uint16   { return uint16(verifNext()) }
func verifNondetUint32() uint32   { return uint32(verifNext()) }
func verifNondetUint64() uint64   { return verifNext() }
func verifNondetUint() uint       { return uint(verifNext()) }
func verifNondetFloat64() float64 { return math.Float64frombits(verifNext()) }
func verifNondetFloat32() float32 { return math.Float32frombits(uint32(verifNext())) }

func verifNondetString(n int) string {
	b := make([]byte, n)
	for i := range b {
		b[i] = byte(verifNext())
	}
	return string(b)
}

func verifNondetBytes(n int) []byte {
	b := make([]byte, n)
	for i := range b {
		b[i] = byte(verifNext())
	}
	return b
}

func verifChoose(n int) int { return int(verifNext()) }

type verifAssumeFailed struct{}

func verifAssume(c bool) {
	if !c {
		panic(verifAssumeFailed{})
	}
}

func verifAssert(c bool, tag string) {
	if !c {
		verifRS.Fails = append(verifRS.Fails, tag)
	}
}

// verifAssertK: ok must hold outside region; inside region a failure is the
// recorded known finding id.
func verifAssertK(ok bool, id string, region bool, tag string) {
	if !ok {
		open := false
		for _, k := range verifRS.Known {
			if k == id {
				open = true
			}
		}
		if region && open {
			verifRS.Fails = append(verifRS.Fails, "KNOWN:"+id+":"+tag)
			panic(verifAssumeFailed{})
		}
		verifRS.Fails = append(verifRS.Fails, tag)
	}
}

// verifIsNil reports whether the interface holds a nil pointer (typed nil) or
// is nil itself.
func verifIsNil(x interface{}) bool {
	if x == nil {
		return true
	}
	v := reflect.ValueOf(x)
	switch v.Kind() {
	case reflect.Ptr, reflect.Map, reflect.Slice, reflect.Func, reflect.Interface, reflect.Chan:
		return v.IsNil()
	}
	return false
}

// verifLog records a line that the replay driver prints with the outcome
// (ignored by the symbolic engine).
func verifLog(s string) { verifRS.Logs = append(verifRS.Logs, s) }

// verifOnce runs a concrete prologue; the engine shares its result between
// paths (natively it simply runs).
func verifOnce(key string, f func() string) string { return f() }

func verifCover(tag string) { verifRS.Covers = append(verifRS.Covers, tag) }

// verifPollChan returns an interrupt channel. Symbolically the engine makes
// every poll of it a choice (ready at most once, within the first limit
// polls). Natively the channel always holds a function that counts the polls,
// re-arms itself, and calls fn at the poll the replay vector says: the poll
// decisions are the remaining entries of the vector (all symbolic inputs of a
// harness must be drawn before the run that polls).
func verifPollChan(fn func(), limit int) chan func() {
	ch := make(chan func(), 1)
	k := 0
	for i := verifRS.pos; i < len(verifRS.Vector); i++ {
		if verifRS.Vector[i] != 0 {
			k = i - verifRS.pos + 1
			break
		}
	}
	verifPoll.n = 0
	verifPoll.fired = false
	var f func()
	f = func() {
		verifPoll.n++
		if verifPoll.n == k {
			verifPoll.fired = true
			fn()
			return
		}
		ch <- f
	}
	ch <- f
	return ch
}

var verifPoll struct {
	n     int
	fired bool
}

func verifPollFired() bool { return verifPoll.fired }

func verifPollCount() int { return verifPoll.n }
func verifSteps() int64   { return 0 }

// verifCatch runs f and classifies how it ended.
//
//	0 normal return
//	1 otto exception (*exception, ottoError, Value, *Error) – what catchPanic handles
//	2 Go run-time error (runtime.Error)
//	3 any other foreign panic value
const (
	verifNormal  = 0
	verifOttoExc = 1
	verifGoPanic = 2
	verifForeign = 3
)

func verifCatch(f func()) (kind int, val interface{}) {
	defer func() {
		if r := recover(); r != nil {
			val = r
			switch r.(type) {
			case verifAssumeFailed:
				panic(r)
			case *exception, ottoError, Value, *Error:
				kind = verifOttoExc
			case goruntime.Error:
				kind = verifGoPanic
			default:
				kind = verifForeign
			}
		}
	}()
	f()
	return verifNormal, nil
}

// verifRunHarness is the native replay entry.
func verifRunHarness(name string, f func()) (fails []string, escaped interface{}) {
	defer func() {
		if r := recover(); r != nil {
			if _, ok := r.(verifAssumeFailed); ok {
				fails = verifRS.Fails
				return
			}
			escaped = fmt.Sprintf("%T: %v", r, r)
			fails = verifRS.Fails
		}
	}()
	f()
	return verifRS.Fails, nil
}
