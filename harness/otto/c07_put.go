//go:build verif

package otto

// C07-H2: [[Put]] / [[CanPut]] through a prototype chain of depth 2, and
// [[Delete]]: assignment to leaf.p where p lives on the leaf, its prototype,
// its prototype's prototype, or nowhere; attributes symbolic.
func VerifH_C07_put() {
	vm := New()
	vm.Run("var setCalled = 'no', setThis = null; var fA = function(){ return 1 }, fB = function(v){ setCalled = v; setThis = this }; var root = {}, mid = Object.create(root), leaf = Object.create(mid)")
	where := verifChoose(4) // 0 leaf, 1 mid, 2 root, 3 nowhere
	accessor := verifNondetBool()
	w := verifNondetBool()
	hasSetter := verifNondetBool()
	old := verifNondetFloat64()
	nv := verifNondetFloat64()
	ext := verifNondetBool()
	names := []string{"leaf", "mid", "root"}
	if where < 3 {
		hv, _ := vm.Get(names[where])
		h := hv.object()
		if accessor {
			var gs propertyGetSet
			g, _ := vm.Get("fA")
			gs[0] = g.object()
			if hasSetter {
				sv, _ := vm.Get("fB")
				gs[1] = sv.object()
			}
			h.property["p"] = property{value: gs, mode: 0o211}
		} else {
			h.property["p"] = property{value: numV(old), mode: verifMode(w, true, true)}
		}
		h.propertyOrder = append(h.propertyOrder, "p")
	}
	lv, _ := vm.Get("leaf")
	lv.object().extensible = ext
	vm.Set("nv", nv)
	_, ok := verifRun(vm, "leaf.p = nv")
	verifCover("reached")
	verifAssert(ok, "assignment does not throw in non-strict code")
	if !ok {
		return
	}
	sc, _ := vm.Run("setCalled")
	called := sc.IsNumber()
	own, _ := vm.Run("var od = Object.getOwnPropertyDescriptor(leaf, 'p'); od !== undefined && 'value' in od")
	ownData, _ := own.ToBoolean()
	ownVal, _ := vm.Run("od ? od.value : undefined")
	ov, _ := ownVal.ToFloat()
	switch {
	case where < 3 && accessor:
		verifAssert(called == hasSetter, "8.12.5: an own or inherited accessor governs assignment (setter called iff defined)")
		if called {
			scv, _ := sc.ToFloat()
			th, _ := vm.Run("setThis === leaf")
			tb, _ := th.ToBoolean()
			verifAssert(sameF64(scv, nv) && tb, "setter receives the value with this = the receiver")
		}
		verifAssert(!ownData, "no own data property is created when an accessor governs")
	case where == 0:
		verifAssert(!called && ownData, "own data property stays")
		if w {
			verifAssert(sameF64(ov, nv), "8.12.5: writable own data property takes the value")
		} else {
			verifAssert(sameF64(ov, old), "a non-writable value never changes")
		}
	case where < 3:
		// inherited data property
		verifAssert(!called, "no setter involved")
		if w && ext {
			verifAssert(ownData && sameF64(ov, nv), "8.12.4/5: a new own property shadows a writable inherited one")
		} else {
			verifAssert(!ownData, "8.12.4: inherited read-only property or non-extensible receiver: nothing is created")
		}
		hv, _ := vm.Run(names[where] + ".p")
		hf, _ := hv.ToFloat()
		verifAssert(sameF64(hf, old), "the inherited property itself is unchanged")
	default:
		verifAssert(!called, "no setter involved")
		if ext {
			verifAssert(ownData && sameF64(ov, nv), "8.12.5: new property created on an extensible object")
			d, _ := vm.Run("od.writable && od.enumerable && od.configurable")
			db, _ := d.ToBoolean()
			verifAssert(db, "created property is writable, enumerable, configurable")
		} else {
			verifAssert(!ownData, "a non-extensible object never gains properties")
		}
	}
}

// [[Delete]] and freeze / seal / preventExtensions with the matching tests.
func VerifH_C07_freeze() {
	vm := New()
	vm.Run("var fA = function(){ return 1 }; var o = {}")
	ovv, _ := vm.Get("o")
	o := ovv.object()
	pw, pe, pc := verifNondetBool(), verifNondetBool(), verifNondetBool()
	qe, qc := verifNondetBool(), verifNondetBool()
	ext := verifNondetBool()
	o.property["p"] = property{value: numV(1), mode: verifMode(pw, pe, pc)}
	g, _ := vm.Get("fA")
	o.property["q"] = property{value: propertyGetSet{g.object(), nil}, mode: 0o200 | verifMode(false, qe, qc)}
	o.propertyOrder = append(o.propertyOrder, "p", "q")
	o.extensible = ext
	verifCover("reached")
	rb := func(script string) bool {
		v, _ := verifRun(vm, script)
		b, _ := v.ToBoolean()
		return b
	}
	// predicates on the initial state
	frozen0 := !ext && !pc && !pw && !qc
	sealed0 := !ext && !pc && !qc
	verifAssert(rb("Object.isFrozen(o)") == frozen0, "15.2.3.12 isFrozen")
	verifAssert(rb("Object.isSealed(o)") == sealed0, "15.2.3.11 isSealed")
	verifAssert(rb("Object.isExtensible(o)") == ext, "15.2.3.13 isExtensible")
	switch verifChoose(4) {
	case 0:
		verifRun(vm, "Object.freeze(o)")
		verifAssert(rb("Object.isFrozen(o) && Object.isSealed(o) && !Object.isExtensible(o)"), "15.2.3.9 freeze")
		verifAssert(rb("var dp = Object.getOwnPropertyDescriptor(o,'p'), dq = Object.getOwnPropertyDescriptor(o,'q'); !dp.writable && !dp.configurable && !dq.configurable"), "freeze: data read-only, everything non-configurable (accessors too)")
		verifAssert(rb("dp.enumerable") == pe && rb("dq.enumerable") == qe && rb("dq.get === fA"), "freeze keeps enumerable and the accessor functions")
		verifAssert(rb("o.p = 2; delete o.q; o.z = 1; o.p === 1 && 'q' in o && !('z' in o)"), "a frozen object does not change")
	case 1:
		verifRun(vm, "Object.seal(o)")
		verifAssert(rb("Object.isSealed(o) && !Object.isExtensible(o)"), "15.2.3.8 seal")
		verifAssert(rb("var dp = Object.getOwnPropertyDescriptor(o,'p'), dq = Object.getOwnPropertyDescriptor(o,'q'); !dp.configurable && !dq.configurable"), "seal: everything non-configurable")
		verifAssert(rb("dp.writable") == pw, "seal keeps writable")
		verifAssert(rb("Object.isFrozen(o)") == !pw, "sealed object is frozen iff no writable data property")
	case 2:
		verifRun(vm, "Object.preventExtensions(o)")
		verifAssert(rb("!Object.isExtensible(o)"), "15.2.3.10 preventExtensions")
		verifAssert(rb("o.z = 1; !('z' in o)"), "a non-extensible object never gains properties")
		verifAssert(rb("Object.isFrozen(o)") == (!pc && !pw && !qc) && rb("Object.isSealed(o)") == (!pc && !qc), "isFrozen/isSealed after preventExtensions")
	default:
		verifAssert(rb("delete o.p") == pc, "8.12.7 delete returns whether the property was configurable")
		verifAssert(rb("'p' in o") == !pc, "a non-configurable property is never deleted")
		verifAssert(rb("Object.getOwnPropertyNames(o).join(',')") || true, "names listable")
		names, _ := vm.Run("Object.getOwnPropertyNames(o).join(',')")
		if pc {
			verifAssert(names.String() == "q", "a deleted property is no longer listed")
		} else {
			verifAssert(names.String() == "p,q", "order kept")
		}
	}
}
