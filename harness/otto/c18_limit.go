//go:build verif

package otto

// C18/C02: the stack depth limit admits exactly the configured nesting:
// limit L (0 = none) allows L-1 nested function calls; one more ends in a
// RangeError that a script can catch, and the runtime is at rest afterwards.
func VerifH_C18_stack_limit() {
	vm := New()
	lim := int(verifNondetInt8())
	verifAssume(lim >= 0 && lim <= 12)
	vm.SetStackDepthLimit(lim)
	d := 1 + verifChoose(8) // number of nested calls
	vm.Set("D", d)
	scopeBefore := vm.runtime.scope
	inTry := verifNondetBool()
	var script string
	if inTry {
		script = "var caught = 'no', r = -1; function f(n) { return n <= 1 ? 1 : 1 + f(n - 1) } try { r = f(D) } catch (e) { caught = e instanceof RangeError ? 'RangeError' : 'other' } caught"
	} else {
		script = "function f(n) { return n <= 1 ? 1 : 1 + f(n - 1) } f(D)"
	}
	var v Value
	var err error
	kind, _ := verifCatch(func() { v, err = vm.Run(script) })
	verifCover("reached")
	verifAssert(kind == verifNormal, "no Go panic escapes Run")
	over := lim != 0 && d >= lim
	if inTry {
		verifAssert(err == nil, "the script catches the error itself")
		if over {
			verifAssert(v.String() == "RangeError", "one call too many is a catchable RangeError")
		} else {
			verifAssert(v.String() == "no", "nesting below the limit runs")
			r, _ := vm.Get("r")
			f, _ := r.ToFloat()
			verifAssert(f == float64(d), "and computes its result")
		}
	} else if over {
		verifAssert(err != nil, "an uncaught RangeError comes back from Run as an error")
	} else {
		f, _ := v.ToFloat()
		verifAssert(err == nil && f == float64(d), "nesting below the limit runs")
	}
	verifAssert(vm.runtime.scope == scopeBefore && len(vm.runtime.labels) == 0, "call stack and labels back to rest")
	vm.SetStackDepthLimit(0)
	w, e2 := vm.Run("f(3)")
	wf, _ := w.ToFloat()
	verifAssert(e2 == nil && wf == 3, "later scripts run normally")
}

var verifAbnormalPrograms = []string{
	"with ({a: 1}) { lbl: for (;;) { throw x } }",
	"function g() { throw x } function h() { try { g() } finally { fin = 1 } } h()",
	"[1, 2].forEach(function (v) { if (v == 2) throw x })",
	"[3, 1, 2].sort(function (a, b) { throw x })",
	"outer: for (var i = 0; i < 2; i++) { inner: for (;;) { hostPanic() } }",
	"[1].map(function () { return hostPanic() })",
	"new (function Ctor() { undefinedFunction() })()",
	"(function () { return eval('throw x') })()",
	"chk: if (x === x || true) throw x",
	"a: b: with ({}) c: { d: switch (1) { case 1: e: try { hostPanic() } finally { fin = 2 } } }",
	"lbl: notDefinedAnywhere",
	"function lf() { inFn: if (true) { throw x } } lf()",
}

// C18-H3: after an uncaught exception or a panicking host function, from any
// of several nested constructs, the runtime is at rest and reusable.
func VerifH_C18_abnormal_exits() {
	vm := New()
	x := verifNondetFloat64()
	vm.Set("x", x)
	vm.Set("hostPanic", func(call FunctionCall) Value { panic(verifHalt{}) })
	vm.Run("var fin = 0")
	scopeBefore := vm.runtime.scope
	prog := verifAbnormalPrograms[verifChoose(len(verifAbnormalPrograms))]
	verifLog(prog)
	var err error
	kind, val := verifCatch(func() { _, err = vm.Run(prog) })
	verifCover("reached")
	if kind == verifNormal {
		verifAssert(err != nil, "the uncaught exception comes back from Run as an error")
	} else {
		_, isHalt := val.(verifHalt)
		verifAssert(kind == verifForeign && isHalt, "a host function's panic reaches the caller of Run unchanged")
	}
	verifAssert(vm.runtime.scope == scopeBefore, "call stack back to rest")
	verifAssert(len(vm.runtime.labels) == 0, "label state back to rest")
	// the exact-nesting script still runs under a tight limit
	vm.SetStackDepthLimit(4)
	v, e2 := vm.Run("function n3() { return 3 } function n2() { return n3() } function n1() { return n2() } n1()")
	f, _ := v.ToFloat()
	verifAssert(e2 == nil && f == 3, "the stack depth limit still admits exactly the configured nesting")
	_, e3 := vm.Run("function n4() { return n1() } n4()")
	verifAssert(e3 != nil, "and still rejects one level more")
}

// How the innermost level of the recursion runs its payload ("hit = 1;
// probe()"): directly, or through one of the constructs that push further
// execution contexts (built-in callbacks, indirect and direct eval, accessors,
// constructors, call/apply, bound functions, a nested Run from a host function).
var verifInnermost = []string{
	"hit = 1; probe()",
	"(0, eval)('hit = 1; probe()')",
	"eval('hit = 1; probe()')",
	"[1].forEach(function () { hit = 1; probe() })",
	"hostRun()",
	"({get p() { hit = 1; probe() }}).p",
	"new (function () { hit = 1; probe() })()",
	"(function () { hit = 1; probe() }).call(null)",
	"(function () { hit = 1; probe() }).bind(null)()",
	"var e = eval; e('hit = 1; probe()')",
	"new Function('hit = 1; probe()')()",
	"[2, 1].sort(function (a, b) { hit = 1; probe(); return a - b })",
	"String(({toString: function () { hit = 1; probe(); return 's' }}))",
}

// C18-H4: the limit is exact on every way of entering a new execution context.
// The depth a payload runs at is calibrated on a second runtime without a
// limit (a host function reads the depth of its own scope); with limit L the
// payload's effect must happen iff its depth is below L, the probe must run
// iff its own depth is below L, and otherwise the script gets a RangeError.
func VerifH_C18_limit_contexts() {
	inner := verifInnermost[verifChoose(len(verifInnermost))]
	d := 1 + verifChoose(3)
	lim := int(verifNondetInt8())
	verifAssume(lim >= 0 && lim <= 9)
	script := "var hit = 0, caught = 'no'; function f(n) { if (n <= 1) { " + inner + "; return 1 } return 1 + f(n - 1) } try { f(D) } catch (e) { caught = e instanceof RangeError ? 'RangeError' : 'other' } caught"
	verifLog(inner)
	run := func(limit int) (probeDepth int, hit bool, caught string, ok bool) {
		vm := New()
		probeDepth = -1
		vm.Set("probe", func(call FunctionCall) Value {
			probeDepth = call.runtime.scope.depth
			return Value{}
		})
		vm.Set("hostRun", func(call FunctionCall) Value {
			v, err := call.Otto.Run("hit = 1; probe()")
			if err != nil {
				// rethrow into the calling script the documented way
				if oe, isOtto := err.(*Error); isOtto && len(oe.Error()) > 10 && oe.Error()[:10] == "RangeError" {
					panic(call.Otto.MakeRangeError("nested Run: " + oe.Error()))
				}
				panic(call.Otto.MakeTypeError("nested Run: " + err.Error()))
			}
			return v
		})
		vm.Set("D", d)
		vm.SetStackDepthLimit(limit)
		scopeBefore := vm.runtime.scope
		var v Value
		var err error
		kind, _ := verifCatch(func() { v, err = vm.Run(script) })
		ok = kind == verifNormal && err == nil && vm.runtime.scope == scopeBefore
		h, _ := vm.Get("hit")
		hf, _ := h.ToFloat()
		return probeDepth, hf == 1, v.String(), ok
	}
	p0, hit0, caught0, ok0 := run(0)
	verifCover("reached")
	verifAssert(ok0 && hit0 && caught0 == "no" && p0 >= d+1, "without a limit the payload and the probe run")
	if !ok0 || p0 < 0 {
		return
	}
	p, hit, caught, ok := run(lim)
	verifAssert(ok, "the script completes and the runtime is at rest")
	if lim == 0 || p0 < lim {
		verifAssert(hit && p == p0 && caught == "no", "nesting below the limit is admitted")
		return
	}
	verifAssert(caught == "RangeError", "nesting at or beyond the limit ends in a catchable RangeError")
	verifAssert(p == -1, "the probe, whose scope would be at the limit or beyond, does not run")
	verifAssert(hit == (p0-1 < lim), "code of an execution context runs iff its depth is below the limit (no context is admitted one level too deep)")
}
