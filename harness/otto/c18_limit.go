//go:build verif

package otto

// C18/C02: the stack depth limit admits exactly the configured nesting:
// limit L (0 = none) allows L-1 nested function calls; one more ends in a
// RangeError that a script can catch, and the runtime is at rest afterwards.
func VerifH_C18_stack_limit() {
	vm := New()
	lim := int(verifNondetInt8())
	verifAssume(lim >= 0 && lim <= 12)
	vm.SetStackDepthLimit(lim)
	d := 1 + verifChoose(8) // number of nested calls
	vm.Set("D", d)
	scopeBefore := vm.runtime.scope
	inTry := verifNondetBool()
	var script string
	if inTry {
		script = "var caught = 'no', r = -1; function f(n) { return n <= 1 ? 1 : 1 + f(n - 1) } try { r = f(D) } catch (e) { caught = e instanceof RangeError ? 'RangeError' : 'other' } caught"
	} else {
		script = "function f(n) { return n <= 1 ? 1 : 1 + f(n - 1) } f(D)"
	}
	var v Value
	var err error
	kind, _ := verifCatch(func() { v, err = vm.Run(script) })
	verifCover("reached")
	verifAssert(kind == verifNormal, "no Go panic escapes Run")
	over := lim != 0 && d >= lim
	if inTry {
		verifAssert(err == nil, "the script catches the error itself")
		if over {
			verifAssert(v.String() == "RangeError", "one call too many is a catchable RangeError")
		} else {
			verifAssert(v.String() == "no", "nesting below the limit runs")
			r, _ := vm.Get("r")
			f, _ := r.ToFloat()
			verifAssert(f == float64(d), "and computes its result")
		}
	} else if over {
		verifAssert(err != nil, "an uncaught RangeError comes back from Run as an error")
	} else {
		f, _ := v.ToFloat()
		verifAssert(err == nil && f == float64(d), "nesting below the limit runs")
	}
	verifAssert(vm.runtime.scope == scopeBefore && len(vm.runtime.labels) == 0, "call stack and labels back to rest")
	vm.SetStackDepthLimit(0)
	w, e2 := vm.Run("f(3)")
	wf, _ := w.ToFloat()
	verifAssert(e2 == nil && wf == 3, "later scripts run normally")
}

var verifAbnormalPrograms = []string{
	"with ({a: 1}) { lbl: for (;;) { throw x } }",
	"function g() { throw x } function h() { try { g() } finally { fin = 1 } } h()",
	"[1, 2].forEach(function (v) { if (v == 2) throw x })",
	"[3, 1, 2].sort(function (a, b) { throw x })",
	"outer: for (var i = 0; i < 2; i++) { inner: for (;;) { hostPanic() } }",
	"[1].map(function () { return hostPanic() })",
	"new (function Ctor() { undefinedFunction() })()",
	"(function () { return eval('throw x') })()",
}

// C18-H3: after an uncaught exception or a panicking host function, from any
// of several nested constructs, the runtime is at rest and reusable.
func VerifH_C18_abnormal_exits() {
	vm := New()
	x := verifNondetFloat64()
	vm.Set("x", x)
	vm.Set("hostPanic", func(call FunctionCall) Value { panic(verifHalt{}) })
	vm.Run("var fin = 0")
	scopeBefore := vm.runtime.scope
	prog := verifAbnormalPrograms[verifChoose(len(verifAbnormalPrograms))]
	verifLog(prog)
	var err error
	kind, val := verifCatch(func() { _, err = vm.Run(prog) })
	verifCover("reached")
	if kind == verifNormal {
		verifAssert(err != nil, "the uncaught exception comes back from Run as an error")
	} else {
		_, isHalt := val.(verifHalt)
		verifAssert(kind == verifForeign && isHalt, "a host function's panic reaches the caller of Run unchanged")
	}
	verifAssert(vm.runtime.scope == scopeBefore, "call stack back to rest")
	verifAssert(len(vm.runtime.labels) == 0, "label state back to rest")
	// the exact-nesting script still runs under a tight limit
	vm.SetStackDepthLimit(4)
	v, e2 := vm.Run("function n3() { return 3 } function n2() { return n3() } function n1() { return n2() } n1()")
	f, _ := v.ToFloat()
	verifAssert(e2 == nil && f == 3, "the stack depth limit still admits exactly the configured nesting")
	_, e3 := vm.Run("function n4() { return n1() } n4()")
	verifAssert(e3 != nil, "and still rejects one level more")
}
