//go:build verif

package otto

func VerifH_T3_probe() {
	vm := New()
	x := verifNondetFloat64()
	s := verifNondetString(2)
	vm.Set("x", x)
	vm.Set("s", s)
	v, err := vm.Run("var o = {a: x}; o.a + 1")
	verifCover("ran")
	verifAssert(err == nil, "no error")
	f, _ := v.ToFloat()
	verifAssert(sameF64(f, x+1), "x+1")
	v2, err2 := vm.Run("s.charAt(1)")
	verifAssert(err2 == nil, "no error 2")
	verifAssert(v2.IsString(), "string result")
	v3, err3 := vm.Run("[1,2,3].slice(x).length")
	verifAssert(err3 == nil, "no error 3")
	_ = v3
}
