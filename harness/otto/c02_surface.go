//go:build verif

package otto

import "fmt"

// verifSurfaceScript lists every function reachable from the global object
// through own data properties of the standard roots, as call paths.
const verifSurfaceScript = `(function(){
  var roots = ["Object","Function","Array","String","Boolean","Number","Math","Date","RegExp","Error","JSON"];
  var out = [];
  var g = this;
  function scan(path, o) {
    var names = Object.getOwnPropertyNames(o).sort();
    for (var i = 0; i < names.length; i++) {
      var n = names[i];
      if (n === "caller" || n === "arguments" || n === "constructor") continue;
      var d = Object.getOwnPropertyDescriptor(o, n);
      if (d && typeof d.value === "function") out.push(path + "." + n);
    }
  }
  for (var r = 0; r < roots.length; r++) {
    var root = g[roots[r]];
    scan(roots[r], root);
    if (root.prototype) scan(roots[r] + ".prototype", root.prototype);
  }
  var gl = ["parseInt","parseFloat","isNaN","isFinite","escape","unescape","encodeURI","encodeURIComponent","decodeURI","decodeURIComponent","eval",
            "Object","Function","Array","String","Boolean","Number","Date","RegExp","Error","TypeError","RangeError"];
  for (var i = 0; i < gl.length; i++) out.push(gl[i]);
  return out.join(",");
}).call(this)`

// verifSetKind binds name in vm to a value of kind k whose payload is symbolic.
//
//	0 undefined  1 null  2 boolean  3 number (any double)  4 string (0..maxStr arbitrary bytes)
//	5 plain object  6 array with a hole  7 function  8 String object  9 object with length
func verifSetKind(vm *Otto, name string, k int, maxStr int) {
	switch k {
	case 0:
		vm.Set(name, Value{})
	case 1:
		vm.Set(name, nullValue)
	case 2:
		vm.Set(name, verifNondetBool())
	case 3:
		vm.Set(name, verifNondetFloat64())
	case 4:
		n := verifChoose(maxStr + 1)
		vm.Set(name, verifNondetString(n))
	case 5:
		vm.Run(name + " = {a: 1, b: 'x'}")
	case 6:
		vm.Run(name + " = [1, , 'x']")
	case 7:
		vm.Run(name + " = function(a, b) { return a }")
	case 8:
		vm.Run(name + " = new String('ab')")
	case 10:
		// bound by the caller to the object that owns the function (e.g. RegExp.prototype)
	default:
		l := verifNondetFloat64()
		verifAssume(!(l >= 4) && !(l <= -1)) // (-1, 4) or NaN: huge array-likes are outside the claim
		vm.Set("verifLen", l)
		vm.Run(name + " = {length: verifLen, 0: 'a', 1: 2}")
	}
}

const verifNumKinds = 11

func verifSplit(s string) []string {
	var out []string
	start := 0
	for i := 0; i <= len(s); i++ {
		if i == len(s) || s[i] == ',' {
			out = append(out, s[start:i])
			start = i + 1
		}
	}
	return out
}

// C02-H1: no Go panic crosses Run for any built-in x receiver kind x argument
// kinds, for every payload of those kinds.
func VerifH_C02_surface() {
	fns := verifSplit(verifOnce("surface", func() string {
		lst, err := New().Run(verifSurfaceScript)
		if err != nil {
			return ""
		}
		return lst.String()
	}))
	vm := New()
	lo := verifParam("from", 0)
	hi := verifParam("to", len(fns))
	if hi > len(fns) {
		hi = len(fns)
	}
	if lo >= hi {
		return
	}
	fn := fns[lo+verifChoose(hi-lo)]
	nargs := verifChoose(verifParam("maxargs", 1) + 1)
	maxStr := verifParam("maxstr", 2)
	tk := verifChoose(verifNumKinds)
	verifSetKind(vm, "T", tk, maxStr)
	if tk == 10 {
		owner := "this"
		for i := len(fn) - 1; i >= 0; i-- {
			if fn[i] == '.' {
				owner = fn[:i]
				break
			}
		}
		vm.Run("T = " + owner)
	}
	script := fn + ".call(T"
	if nargs >= 1 {
		verifSetKind(vm, "A", verifChoose(verifNumKinds), maxStr)
		script += ", A"
	}
	if nargs >= 2 {
		verifSetKind(vm, "B", verifChoose(verifNumKinds), maxStr)
		script += ", B"
	}
	script += ")"
	verifLog("script: " + script)
	var rerr error
	kind, val := verifCatch(func() { _, rerr = vm.Run(script) })
	_ = rerr
	if kind != verifNormal {
		verifLog(fmt.Sprintf("escaped: %v", val))
	}
	verifCover("called")
	verifAssert(kind == verifNormal, "Run returns (value or error): no Go panic escapes")
	_ = val
	// the runtime stays usable
	k2, _ := verifCatch(func() {
		v, e := vm.Run("1+1")
		if e == nil {
			f, _ := v.ToFloat()
			verifAssert(f == 2, "runtime usable after the call")
		}
	})
	verifAssert(k2 == verifNormal, "follow-up Run does not panic")
}

// Functions for which the second argument matters; receivers of the kind each
// expects, two arguments of 6 kinds each.
var verifTwoArgFns = []struct {
	fn   string
	recv int // verifSetKind kind of the receiver
}{
	{"String.prototype.replace", 4}, {"String.prototype.split", 4}, {"String.prototype.slice", 4},
	{"String.prototype.substring", 4}, {"String.prototype.substr", 4}, {"String.prototype.indexOf", 4},
	{"String.prototype.lastIndexOf", 4}, {"String.prototype.concat", 4}, {"String.prototype.match", 4},
	{"Function.prototype.apply", 7}, {"Function.prototype.call", 7}, {"Function.prototype.bind", 7},
	{"Array.prototype.slice", 6}, {"Array.prototype.splice", 6}, {"Array.prototype.indexOf", 6},
	{"Array.prototype.lastIndexOf", 6}, {"Array.prototype.concat", 6}, {"Array.prototype.join", 6},
	{"Array.prototype.reduce", 6}, {"Array.prototype.map", 6},
	{"Object.defineProperty", 5}, {"Object.create", 5}, {"Object.defineProperties", 5},
	{"JSON.stringify", 5}, {"JSON.parse", 5},
	{"Number.prototype.toString", 3}, {"Number.prototype.toFixed", 3}, {"Number.prototype.toPrecision", 3},
	{"RegExp.prototype.exec", 5}, {"RegExp.prototype.test", 5}, {"Date.UTC", 5},
	{"String.prototype.startsWith", 4}, {"String.prototype.charCodeAt", 4},
	{"Object.assign", 5}, {"Object.getOwnPropertyDescriptor", 5}, {"Object.keys", 5}, {"Number.prototype.toLocaleString", 3},
}

var verifArgKinds = []int{0, 3, 4, 5, 6, 7}

// C02-H1b: two-argument calls of the built-ins whose second argument is
// significant.
func VerifH_C02_two_args() {
	vm := New()
	lo, hi := verifParam("from", 0), verifParam("to", len(verifTwoArgFns))
	if hi > len(verifTwoArgFns) {
		hi = len(verifTwoArgFns)
	}
	f := verifTwoArgFns[lo+verifChoose(hi-lo)]
	maxStr := verifParam("maxstr", 2)
	verifSetKind(vm, "T", f.recv, maxStr)
	verifSetKind(vm, "A", verifArgKinds[verifChoose(len(verifArgKinds))], maxStr)
	verifSetKind(vm, "B", verifArgKinds[verifChoose(len(verifArgKinds))], maxStr)
	script := f.fn + ".call(T, A, B)"
	verifLog("script: " + script)
	kind, val := verifCatch(func() { vm.Run(script) })
	if kind != verifNormal {
		verifLog(fmt.Sprintf("escaped: %v", val))
	}
	verifCover("called")
	verifAssert(kind == verifNormal, "Run returns (value or error): no Go panic escapes")
	k2, _ := verifCatch(func() {
		v, e := vm.Run("1+1")
		if e == nil {
			f, _ := v.ToFloat()
			verifAssert(f == 2, "runtime usable after the call")
		}
	})
	verifAssert(k2 == verifNormal, "follow-up Run does not panic")
}

// C02-H1c: every reachable function used as a constructor, directly and
// through a bound function, with 0..1 arguments of every kind.
func VerifH_C02_construct() {
	fns := verifSplit(verifOnce("surface", func() string {
		lst, err := New().Run(verifSurfaceScript)
		if err != nil {
			return ""
		}
		return lst.String()
	}))
	vm := New()
	if len(fns) == 0 {
		return
	}
	fn := fns[verifChoose(len(fns))]
	maxStr := verifParam("maxstr", 2)
	verifSetKind(vm, "A", verifChoose(10), maxStr)
	var script string
	switch verifChoose(3) {
	case 0:
		script = "new (" + fn + ")(A)"
	case 1:
		script = "new (Function.prototype.bind.call(" + fn + ", A))"
	default:
		script = "new (Function.prototype.bind.call(" + fn + ", null, A))(A)"
	}
	verifLog("script: " + script)
	kind, val := verifCatch(func() { vm.Run(script) })
	if kind != verifNormal {
		verifLog(fmt.Sprintf("escaped: %v", val))
	}
	verifCover("called")
	verifAssert(kind == verifNormal, "Run returns (value or error): no Go panic escapes")
}
