//go:build verif

package otto

import "math"

// refWS: byte length of the ES5 WhiteSpace / LineTerminator character starting
// at s[i] (7.2, 7.3: TAB VT FF SP NBSP BOM Zs, LF CR LS PS), or 0.
func refWS(s string, i int) int {
	c := s[i]
	switch {
	case c == 0x09 || c == 0x0A || c == 0x0B || c == 0x0C || c == 0x0D || c == 0x20:
		return 1
	case c == 0xC2 && i+1 < len(s) && s[i+1] == 0xA0:
		return 2
	case c == 0xE1 && i+2 < len(s):
		if s[i+1] == 0x9A && s[i+2] == 0x80 { // U+1680
			return 3
		}
		if s[i+1] == 0xA0 && s[i+2] == 0x8E { // U+180E (Zs in Unicode 3.0 .. 6.2)
			return 3
		}
	case c == 0xE2 && i+2 < len(s):
		if s[i+1] == 0x80 && (s[i+2] >= 0x80 && s[i+2] <= 0x8A || s[i+2] == 0xA8 || s[i+2] == 0xA9 || s[i+2] == 0xAF) {
			return 3
		}
		if s[i+1] == 0x81 && s[i+2] == 0x9F { // U+205F
			return 3
		}
	case c == 0xE3 && i+2 < len(s) && s[i+1] == 0x80 && s[i+2] == 0x80: // U+3000
		return 3
	case c == 0xEF && i+2 < len(s) && s[i+1] == 0xBB && s[i+2] == 0xBF: // U+FEFF
		return 3
	}
	return 0
}

func refIsDigit(c byte) bool { return '0' <= c && c <= '9' }

// refStringNumericLiteral: ES5 9.3.1. Returns whether s is in the grammar, and
// if its value is determined without decimal rounding (empty, Infinity, hex
// integers, plain decimal integers) that value.
func refStringNumericLiteral(s string) (ok bool, known bool, value float64) {
	i, j := 0, len(s)
	for i < j {
		n := refWS(s, i)
		if n == 0 {
			break
		}
		i += n
	}
	for j > i {
		// find a white space character ending at j
		found := false
		for n := 1; n <= 3 && j-n >= i; n++ {
			if refWS(s, j-n) == n {
				j -= n
				found = true
				break
			}
		}
		if !found {
			break
		}
	}
	t := s[i:j]
	if len(t) == 0 {
		return true, true, 0
	}
	// hex
	if len(t) > 2 && t[0] == '0' && (t[1] == 'x' || t[1] == 'X') {
		var v float64
		for k := 2; k < len(t); k++ {
			c := t[k]
			var d int
			switch {
			case '0' <= c && c <= '9':
				d = int(c - '0')
			case 'a' <= c && c <= 'f':
				d = int(c-'a') + 10
			case 'A' <= c && c <= 'F':
				d = int(c-'A') + 10
			default:
				return false, false, 0
			}
			v = v*16 + float64(d)
		}
		return true, true, v
	}
	neg := false
	k := 0
	if t[0] == '+' || t[0] == '-' {
		neg = t[0] == '-'
		k = 1
	}
	sign := func(v float64) float64 {
		if neg {
			return -v
		}
		return v
	}
	if t[k:] == "Infinity" {
		return true, true, sign(math.Inf(1))
	}
	// decimal: digits [. digits] [e [+-] digits]  |  . digits [e..]
	intDigits := 0
	var iv float64
	for k < len(t) && refIsDigit(t[k]) {
		iv = iv*10 + float64(t[k]-'0')
		k++
		intDigits++
	}
	fracDigits := 0
	hasDot := false
	if k < len(t) && t[k] == '.' {
		hasDot = true
		k++
		for k < len(t) && refIsDigit(t[k]) {
			k++
			fracDigits++
		}
	}
	if intDigits == 0 && fracDigits == 0 {
		return false, false, 0
	}
	hasExp := false
	if k < len(t) && (t[k] == 'e' || t[k] == 'E') {
		hasExp = true
		k++
		if k < len(t) && (t[k] == '+' || t[k] == '-') {
			k++
		}
		ed := 0
		for k < len(t) && refIsDigit(t[k]) {
			k++
			ed++
		}
		if ed == 0 {
			return false, false, 0
		}
	}
	if k != len(t) {
		return false, false, 0
	}
	if !hasDot && !hasExp {
		return true, true, sign(iv) // at most a few digits: exact
	}
	return true, false, 0
}

// ToNumber applied to a String (ES5 9.3.1), every byte string up to the bound.
func VerifH_C05_toNumber_string() {
	n := verifChoose(verifParam("maxlen", 3) + 1)
	s := verifNondetString(n)
	verifAssume(verifValidUTF8(s))
	got := Value{kind: valueString, value: s}.float64()
	ok, known, want := refStringNumericLiteral(s)
	verifCover("reached")
	if !ok {
		verifAssertK(got != got, "C05-tonumber-go-syntax", verifGoNumberSyntax(s), "ES5 9.3.1: not a StringNumericLiteral => NaN")
		return
	}
	verifAssert(got == got, "ES5 9.3.1: a StringNumericLiteral is not NaN")
	if known {
		verifAssert(sameF64(got, want) || (want == 0 && got == 0), "ES5 9.3.1: value of the literal")
	}
}

// verifGoNumberSyntax: the input uses Go-only number syntax that leaks through
// strconv (digit separators, "inf"/"infinity"/"nan" spellings, hex floats,
// 0b/0o prefixes) – the region of known finding C05-tonumber-go-syntax.
func verifGoNumberSyntax(s string) bool {
	for i := 0; i < len(s); i++ {
		c := s[i]
		if c == '_' || c == 'p' || c == 'P' || c == 'i' || c == 'I' || c == 'n' || c == 'N' || c == 'b' || c == 'B' || c == 'o' || c == 'O' {
			return true
		}
	}
	return false
}

var verifNumAlphabet = func() (t [256]bool) {
	for _, c := range []byte("0123456789abcdefABCDEFxX.eE+-_ In") {
		t[c] = true
	}
	return
}()

// ToNumber on longer strings: a fixed prefix, then 2..3 symbolic bytes over
// the alphabet of numeric literals.
func VerifH_C05_toNumber_templates() {
	pre := []string{"", "+", "-", "0", "0x", "-0", "+0x", "1e", ".", " 1", "1."}[verifChoose(11)]
	n := 1 + verifChoose(verifParam("holes", 2))
	h := verifNondetString(n)
	for i := 0; i < n; i++ {
		verifAssume(verifNumAlphabet[h[i]])
	}
	s := pre + h
	got := Value{kind: valueString, value: s}.float64()
	ok, known, want := refStringNumericLiteral(s)
	verifCover("reached")
	if !ok {
		verifAssert(got != got, "ES5 9.3.1: not a StringNumericLiteral => NaN")
		return
	}
	verifAssert(got == got, "ES5 9.3.1: a StringNumericLiteral is not NaN")
	if known {
		verifAssert(sameF64(got, want) || (want == 0 && got == 0), "ES5 9.3.1: value of the literal")
	}
}
