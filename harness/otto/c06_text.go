//go:build verif

package otto

import (
	"math"
	"strings"
)

func refDigit(c byte) int {
	switch {
	case '0' <= c && c <= '9':
		return int(c - '0')
	case 'a' <= c && c <= 'z':
		return int(c-'a') + 10
	case 'A' <= c && c <= 'Z':
		return int(c-'A') + 10
	}
	return 99
}

// refParseInt: ES5 15.1.2.2 on a (valid UTF-8) string and an already ToInt32'd radix.
func refParseInt(s string, r int32) (nan bool, value float64) {
	i := 0
	for i < len(s) {
		n := refWS(s, i)
		if n == 0 {
			break
		}
		i += n
	}
	s = s[i:]
	sign := 1.0
	if len(s) > 0 && (s[0] == '+' || s[0] == '-') {
		if s[0] == '-' {
			sign = -1
		}
		s = s[1:]
	}
	strip := true
	R := int(r)
	if R != 0 {
		if R < 2 || R > 36 {
			return true, 0
		}
		if R != 16 {
			strip = false
		}
	} else {
		R = 10
	}
	if strip && len(s) >= 2 && s[0] == '0' && (s[1] == 'x' || s[1] == 'X') {
		s = s[2:]
		R = 16
	}
	k := 0
	v := 0.0
	for k < len(s) && refDigit(s[k]) < R {
		v = v*float64(R) + float64(refDigit(s[k]))
		k++
	}
	if k == 0 {
		return true, 0
	}
	return false, sign * v
}

func VerifH_C06_parseInt() {
	vm := New()
	n := verifChoose(verifParam("maxlen", 3) + 1)
	s := verifNondetString(n)
	verifAssume(verifValidUTF8(s))
	vm.Set("s", s)
	var r int32
	script := "parseInt(s)"
	if verifChoose(2) == 1 {
		// the radix is any double with |r| < 2^63, NaN or an infinity
		// (ToInt32 of larger magnitudes is decided by the C05 kernel harness)
		if verifParam("radixdouble", 0) == 1 {
			rf := verifNondetFloat64()
			verifAssume(rf != rf || math.Abs(rf) < 9223372036854775808.0 || math.Abs(rf) > math.MaxFloat64)
			r = refInt32(rf)
			vm.Set("r", rf)
		} else {
			r = verifNondetInt32()
			vm.Set("r", r)
		}
		script = "parseInt(s, r)"
	}
	v, ok := verifRun(vm, script)
	verifCover("reached")
	verifAssert(ok, "parseInt does not throw")
	if !ok {
		return
	}
	got, _ := v.ToFloat()
	nan, want := refParseInt(s, r)
	if nan {
		verifAssert(got != got, "ES5 15.1.2.2: NaN when no digits / bad radix")
	} else {
		verifAssert(got == want && (want != 0 || math.Signbit(got) == math.Signbit(want)), "ES5 15.1.2.2: value of the longest digit prefix")
	}
}

// refParseFloatPrefix: ES5 15.1.2.3. Reports whether a StrDecimalLiteral
// prefix exists after leading white space; if the prefix is a plain integer
// (no fraction, no exponent) or Infinity its value.
func refParseFloatPrefix(s string) (nan bool, known bool, value float64) {
	i := 0
	for i < len(s) {
		n := refWS(s, i)
		if n == 0 {
			break
		}
		i += n
	}
	t := s[i:]
	k := 0
	neg := false
	if k < len(t) && (t[k] == '+' || t[k] == '-') {
		neg = t[k] == '-'
		k++
	}
	sg := func(v float64) float64 {
		if neg {
			return -v
		}
		return v
	}
	if len(t)-k >= 8 && t[k:k+8] == "Infinity" {
		return false, true, sg(math.Inf(1))
	}
	digits, iv := 0, 0.0
	for k < len(t) && refIsDigit(t[k]) {
		iv = iv*10 + float64(t[k]-'0')
		k++
		digits++
	}
	frac := 0
	plain := true
	if k < len(t) && t[k] == '.' {
		j := k + 1
		for j < len(t) && refIsDigit(t[j]) {
			j++
			frac++
		}
		if digits > 0 || frac > 0 {
			k = j
			if frac > 0 {
				plain = false
			}
		}
	}
	if digits == 0 && frac == 0 {
		return true, false, 0
	}
	if k < len(t) && (t[k] == 'e' || t[k] == 'E') {
		j := k + 1
		if j < len(t) && (t[j] == '+' || t[j] == '-') {
			j++
		}
		if j < len(t) && refIsDigit(t[j]) {
			plain = false
		}
	}
	if plain {
		return false, true, sg(iv)
	}
	return false, false, 0
}

func VerifH_C06_parseFloat() {
	vm := New()
	n := verifChoose(verifParam("maxlen", 3) + 1)
	s := verifNondetString(n)
	verifAssume(verifValidUTF8(s))
	vm.Set("s", s)
	v, ok := verifRun(vm, "parseFloat(s)")
	verifCover("reached")
	verifAssert(ok, "parseFloat does not throw")
	if !ok {
		return
	}
	got, _ := v.ToFloat()
	nan, known, want := refParseFloatPrefix(s)
	if nan {
		verifAssert(got != got, "ES5 15.1.2.3: NaN when no StrDecimalLiteral prefix")
		return
	}
	verifAssert(got == got, "ES5 15.1.2.3: a StrDecimalLiteral prefix gives a number")
	if known {
		verifAssert(got == want, "ES5 15.1.2.3: value of an integer / Infinity prefix")
	}
}

// Number.prototype.toString(radix): RangeError iff ToInteger(radix) is outside
// [2,36]; for integer values the digits denote the value.
func VerifH_C06_toString_radix_range() {
	vm := New()
	vm.Set("x", 255.0)
	rad := verifNondetFloat64()
	vm.Set("r", rad)
	ri := refToInteger(rad)
	v, _ := verifRun(vm, "var res = 'ok'; try { x.toString(r) } catch (e) { res = e instanceof RangeError ? 'RangeError' : 'other' } res")
	verifCover("reached")
	if !(ri >= 2 && ri <= 36) {
		verifAssert(v.String() == "RangeError", "ES5 15.7.4.2: radix outside 2..36 is a RangeError")
	} else {
		verifAssert(v.String() == "ok", "ES5 15.7.4.2: radix in 2..36 does not throw")
	}
}

func VerifH_C06_toString_radix_digits() {
	vm := New()
	x := verifNondetInt32()
	lim := int32(verifParam("maxabs", 4096))
	verifAssume(x > -lim && x < lim)
	vm.Set("x", float64(x))
	// radix 10 is excluded: it goes through the float -> decimal printer,
	// which is outside the claim (strconv.FormatFloat is a stub)
	var R int
	if verifParam("allradix", 0) == 1 {
		R = 2 + verifChoose(35)
		verifAssume(R != 10)
	} else {
		R = []int{2, 3, 8, 16, 36}[verifChoose(5)]
	}
	vm.Set("r", float64(R)+0.5) // ToInteger(radix): the fraction is dropped
	v, ok := verifRun(vm, "x.toString(r)")
	verifCover("digits")
	verifAssert(ok, "toString(radix) in range does not throw")
	if !ok {
		return
	}
	out := v.String()
	neg := false
	if len(out) > 0 && out[0] == '-' {
		neg = true
		out = out[1:]
	}
	val := int64(0)
	good := len(out) > 0
	for i := 0; i < len(out); i++ {
		d := refDigit(out[i])
		if d >= R || (out[i] >= 'A' && out[i] <= 'Z') {
			good = false
		}
		val = val*int64(R) + int64(d)
	}
	if neg {
		val = -val
	}
	verifAssert(good, "only lower-case digits of the radix")
	verifAssert(val == int64(x), "the digits denote the value")
	verifAssert(len(out) == 1 || out[0] != '0', "no leading zeros")
}

// toFixed / toExponential / toPrecision: the argument ranges ES5 requires to
// throw do throw, and the ranges it requires to work do not.
func VerifH_C06_precision_ranges() {
	vm := New()
	x := verifNondetFloat64()
	p := verifNondetFloat64()
	vm.Set("x", x)
	vm.Set("p", p)
	pi := refToInteger(p)
	which := verifChoose(3)
	name := []string{"toFixed", "toExponential", "toPrecision"}[which]
	v, ok := verifRun(vm, "var res = 'ok'; try { x."+name+"(p) } catch (e) { res = e instanceof RangeError ? 'RangeError' : 'other' } res")
	verifCover("reached")
	if !ok {
		return
	}
	res := v.String()
	switch which {
	case 0:
		if pi < 0 || pi > 20 {
			verifAssert(res == "RangeError", "15.7.4.5 toFixed: digits outside 0..20 throw RangeError")
		} else {
			verifAssert(res == "ok", "15.7.4.5 toFixed: digits in 0..20 do not throw")
		}
	case 1:
		if x == x && math.Abs(x) <= math.MaxFloat64 && pi < 0 {
			verifAssert(res == "RangeError", "15.7.4.6 toExponential: negative digits throw RangeError")
		}
		if pi >= 0 && pi <= 20 {
			verifAssert(res == "ok", "15.7.4.6 toExponential: digits in 0..20 do not throw")
		}
	default:
		if x == x && math.Abs(x) <= math.MaxFloat64 && pi < 1 {
			verifAssert(res == "RangeError", "15.7.4.7 toPrecision: precision below 1 throws RangeError")
		}
		if pi >= 1 && pi <= 21 {
			verifAssert(res == "ok", "15.7.4.7 toPrecision: precision in 1..21 does not throw")
		}
	}
}

// Layout rules that do not depend on the digits (which strconv produces and
// the engine does not model): which of the formatting routes is taken.
//   15.7.4.5 step 7: |x| >= 1e21 => toFixed(p) is ToString(x);
//   15.7.4.2: toString() / toString(undefined) / toString(10) are ToString(x);
//   15.7.4.6/7: NaN and the infinities print as in ToString for every digits argument.
func VerifH_C06_format_routes() {
	vm := New()
	x := verifNondetFloat64()
	vm.Set("x", x)
	verifCover("reached")
	switch verifChoose(3) {
	case 0:
		p := verifChoose(21)
		vm.Set("p", p)
		verifAssume(x != x || math.Abs(x) >= 1e21)
		v, ok := verifRun(vm, "x.toFixed(p) === String(x)")
		b, _ := v.ToBoolean()
		verifAssert(ok && b, "15.7.4.5 step 7: toFixed of NaN or |x| >= 1e21 is ToString(x)")
	case 1:
		v, ok := verifRun(vm, "x.toString() === String(x) && x.toString(undefined) === String(x) && x.toString(10) === String(x) && ('' + x) === String(x)")
		b, _ := v.ToBoolean()
		verifAssert(ok && b, "15.7.4.2: radix 10 (or none) is ToString(x)")
	default:
		verifAssume(x != x || math.Abs(x) > math.MaxFloat64)
		p := 1 + verifChoose(20)
		vm.Set("p", p)
		v, ok := verifRun(vm, "x.toExponential(p) === String(x) && x.toPrecision(p) === String(x) && x.toFixed(p) === String(x) && x.toExponential() === String(x) && x.toPrecision() === String(x)")
		b, _ := v.ToBoolean()
		verifAssert(ok && b, "15.7.4.5-7: NaN and the infinities print as ToString does")
	}
}

// 9.8.1 steps 6-10: ToString of a finite non-zero number is in decimal notation
// exactly when 1e-6 <= |x| < 1e21 and in exponent notation otherwise, for every
// double, by String(x), '' + x and x.toString(). Digit generation is not
// modelled: in the engine strconv.FormatFloat of a symbolic double returns a
// placeholder that keeps the requested format ("<float/f/-1>", "<float/g/-1>"),
// which is what the notation is read from; in the native replay it is read
// from the 'e' in the real text (Go's shortest 'g' form has an exponent for
// every |x| >= 1e21 and every |x| < 1e-4, its 'f' form never has one).
func VerifH_C06_notation_threshold() {
	vm := New()
	x := verifNondetFloat64()
	verifAssume(x == x && math.Abs(x) <= math.MaxFloat64 && x != 0)
	vm.Set("x", x)
	script := "String(x)"
	switch verifChoose(3) {
	case 1:
		script = "'' + x"
	case 2:
		script = "x.toString()"
	}
	v, ok := verifRun(vm, script)
	verifCover("reached")
	verifAssert(ok, "does not throw")
	if !ok {
		return
	}
	s := v.String()
	verifLog(s)
	gotExp := strings.Contains(s, "e") || strings.Contains(s, "/g/")
	wantExp := math.Abs(x) >= 1e21 || math.Abs(x) < 1e-6
	if wantExp {
		verifCover("exponent notation")
	} else {
		verifCover("decimal notation")
	}
	verifAssert(gotExp == wantExp, "9.8.1: decimal notation exactly when 1e-6 <= |x| < 1e21")
}
