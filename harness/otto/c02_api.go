//go:build verif

package otto

import "fmt"

// C02-H4: the Go-side API (Value / Object accessors, Call, Object, ToValue, Set,
// Get, Eval, Compile) returns a value or an error for every kind of JavaScript
// value it can be handed - including objects whose conversions throw, accessor
// properties that throw, cyclic objects and functions - and for unusual Go
// values: no Go panic escapes.
func VerifH_C02_go_api() {
	vm := New()
	maxStr := verifParam("maxstr", 1)
	tk := verifChoose(19)
	switch {
	case tk == 18: // a shared, acyclic substructure
		vm.Run("var shared = {x: 1}; T = {from: shared, to: shared, rows: [shared, shared], m: function () { return shared }}")
	case tk == 16:
		vm.Run("T = [[[1]], [['a']], [[]], [1, 'a'], [{}], [[null]]]")
	case tk == 17:
		vm.Run("T = [[1, 2], [3], {length: 1, 0: [4]}, [[5]], , undefined]")
	case tk < 12:
		verifSetKind(vm, "T", tk, maxStr)
	case tk == 12:
		vm.Run("T = {toString: function () { throw new Error('ts') }, valueOf: function () { throw 1 }, m: function () { throw 2 }}")
	case tk == 13:
		vm.Run("T = {get p() { throw new TypeError('gp') }, set p(v) { throw 3 }, m: 5}")
	case tk == 14:
		vm.Run("T = {}; T.p = T; T.m = function () { return T }")
	default:
		vm.Run("T = function () { return this }; T.p = function () { return [arguments.length, T.p.caller, arguments.callee.caller, T.caller] }; T.toString = function () { return {} }")
	}
	verifSetKind(vm, "A", verifChoose(8), maxStr)
	t, _ := vm.Get("T")
	a, _ := vm.Get("A")
	op := verifChoose(24)
	verifLog(fmt.Sprintf("T kind %d op %d", tk, op))
	kind, val := verifCatch(func() {
		switch op {
		case 0:
			_ = t.String()
		case 1:
			t.ToString()
		case 2:
			t.ToFloat()
		case 3:
			t.ToInteger()
		case 4:
			t.ToBoolean()
		case 5:
			_, xerr := t.Export()
			// only a cycle (14) or a throwing accessor (13) can make Export fail
			verifAssert(xerr == nil || tk == 13 || tk == 14, "Export of an acyclic value succeeds (shared substructures are not cycles)")
		case 6:
			t.Call(a, a, 1, "s", nil)
		case 7:
			_ = t.Class()
		case 8:
			if o := t.Object(); o != nil {
				o.Get("p")
				o.Get("")
			}
		case 9:
			if o := t.Object(); o != nil {
				o.Set("p", a)
				o.Set("length", a)
				o.Set("0", 1.5)
			}
		case 10:
			if o := t.Object(); o != nil {
				_ = o.Keys()
				_ = o.KeysByParent()
				_ = o.Class()
				_ = o.Value()
			}
		case 11:
			if o := t.Object(); o != nil {
				o.Call("m", a)
				o.Call("p")
				o.Call("noSuchMethod", 1)
				o.Call("")
			}
		case 12:
			vm.Call("T", nil, a)
		case 13:
			vm.Call("T.p", a, a, a)
		case 14:
			vm.Call("new T", nil, a)
		case 15:
			vm.Call("T.m", t)
		case 16:
			vm.Object("T")
			vm.Object("({a: A})")
			vm.Object("A")
		case 17:
			vm.Eval("T.p")
			vm.Eval("A + T")
		case 18:
			var np *int
			var nf func()
			var ni interface{}
			var nm map[string]int
			var ns []int
			vm.ToValue(np)
			vm.ToValue(nf)
			vm.ToValue(ni)
			vm.Set("w1", np)
			vm.Set("w2", nm)
			vm.Set("w3", ns)
			vm.Set("w4", ni)
			var nfi func(int) int
			vm.Set("w6", nfi)
			vm.Run("typeof w6 == 'function' ? w6(1) : 0")
			vm.Run("[typeof w1, typeof w2, typeof w3, w4, w3[0], w3.length, String(w1)]")
			// Go values without a JavaScript counterpart: an error, never a panic
			ch := make(chan int)
			vm.ToValue(ch)
			vm.Set("w5", ch)
			if o := t.Object(); o != nil {
				o.Set("ch", ch)
				o.Set("chs", []chan int{ch})
				o.Call("m", ch)
			}
			vm.Call("T", nil, ch)
			vm.Call("T", ch)
			t.Call(a, ch)
		case 19:
			vm.Get("")
			vm.Get("T.p")
			vm.Get("no such name")
			vm.Set("", a)
			vm.Set("a.b", t)
		case 20:
			vm.Compile("", "T(")
			s, err := vm.Compile("f.js", "T.p")
			if err == nil {
				vm.Run(s)
			}
			vm.Run(42)
			vm.Run([]byte("T"))
			var nilScript *Script
			vm.Run(nilScript)
			vm.Eval(nilScript)
			closed := make(chan func(), 1)
			close(closed)
			vm.Interrupt = closed
			vm.Run("T; A")
			vm.Interrupt = nil
		case 21:
			vm.Call("", nil)
			vm.Call("// only a comment", nil)
			vm.Call("   ", nil)
			vm.Call(";", nil)
			vm.Call("/* c */ new // x", nil)
			vm.Call("new ", nil)
			vm.Call("new", a)
			vm.Call("(", nil)
			vm.Call("A", nil)
			vm.Call("A.b.c", nil)
		case 22:
			a.Call(t)
			Value{}.Call(t)
			nullValue.Call(a, t)
		default:
			e := vm.MakeCustomError("X"+a.String(), t.String())
			_ = e.String()
			vm.MakeRangeError(a.String())
			vm.Run("throw T")
			vm.Run("throw A")
		}
	})
	if kind != verifNormal {
		verifLog(fmt.Sprintf("escaped: %v", val))
	}
	verifCover("reached")
	verifAssert(kind == verifNormal, "the Go API returns (value or error): no Go panic escapes")
	k2, _ := verifCatch(func() {
		v, e := vm.Run("1+1")
		if e == nil {
			f, _ := v.ToFloat()
			verifAssert(f == 2, "runtime usable afterwards")
		}
	})
	verifAssert(k2 == verifNormal, "follow-up Run does not panic")
}
