//go:build verif

package otto

// C10-H2: the exec / lastIndex protocol (ES5 15.10.6.2) on top of the matcher,
// for the patterns /a/, /a*/ and /$/ (global or not), an ASCII subject of 0..3 symbolic bytes
// and any double as lastIndex.
func VerifH_C10_exec_protocol() {
	vm := New()
	n := verifChoose(verifParam("maxlen", 3) + 1)
	s := verifNondetString(n)
	for i := 0; i < n; i++ {
		verifAssume(s[i] < 0x80)
	}
	global := verifNondetBool()
	li := verifNondetFloat64()
	vm.Set("s", s)
	vm.Set("li", li)
	pat := verifChoose(3) // /a/, /a*/ (can match the empty string), /$/ (matches only at the end)
	src := []string{"/a/", "/a*/", "/$/"}[pat]
	if global {
		src += "g"
	}
	vm.Run("var re = " + src)
	v, ok := verifRun(vm, "re.lastIndex = li; var r = re.exec(s); r === null ? -1 : r.index")
	verifCover("reached")
	verifAssert(ok, "exec does not throw")
	if !ok {
		return
	}
	got, _ := v.ToFloat()
	after, _ := vm.Run("re.lastIndex")
	la, _ := after.ToFloat()
	start := 0
	if global {
		i := clampInt(li)
		if i < 0 || i > n {
			verifAssert(got == -1, "15.10.6.2 step 9: lastIndex out of range => null")
			verifAssert(la == 0, "15.10.6.2 step 9.a: lastIndex reset to 0")
			return
		}
		start = i
	}
	want, mlen := -1, 1
	switch pat {
	case 0:
		for k := start; k < n; k++ {
			if s[k] == 'a' {
				want = k
				break
			}
		}
	case 1:
		want, mlen = start, 0
		for k := start; k < n && s[k] == 'a'; k++ {
			mlen++
		}
	default:
		want, mlen = n, 0
	}
	verifAssert(got == float64(want), "15.10.6.2: index of the first match at or after lastIndex")
	if want >= 0 {
		ml, _ := vm.Run("r[0].length")
		mf, _ := ml.ToFloat()
		verifAssert(mf == float64(mlen), "15.10.6.2: the matched text")
	}
	if global {
		if want >= 0 {
			verifAssert(la == float64(want+mlen), "15.10.6.2 step 11: lastIndex = end of the match")
		} else {
			verifAssert(la == 0, "15.10.6.2 step 9.a: no match resets lastIndex")
		}
	} else if want >= 0 {
		verifAssert(sameF64(la, li), "a matching non-global regexp leaves lastIndex alone")
	} else {
		verifAssert(la == 0, "15.10.6.2 step 9.a: failure sets lastIndex to 0 (also when not global)")
	}
}
