//go:build verif

package otto

import "math"

// refToUint64Mod computes ES5 9.5-9.7 "sign(x)*floor(abs(x)) modulo 2^k" on the
// IEEE bits with integer arithmetic only (k <= 32).
func refModPow2(bits uint64, k uint) uint32 {
	exp := int((bits >> 52) & 0x7FF)
	mant := bits & (1<<52 - 1)
	neg := bits>>63 != 0
	if exp == 0x7FF { // NaN, +-Inf
		return 0
	}
	if exp == 0 { // zero, subnormal: |x| < 1
		return 0
	}
	mant |= 1 << 52
	// value = mant * 2^(exp-1075)
	sh := exp - 1075
	var mag uint64
	if sh >= 0 {
		if sh >= 64 {
			mag = 0 // multiple of 2^64 => 0 mod 2^k
		} else {
			mag = mant << uint(sh) // overflow bits drop: arithmetic mod 2^64
		}
	} else {
		if -sh >= 64 {
			mag = 0
		} else {
			mag = mant >> uint(-sh) // floor of the magnitude
		}
	}
	if neg {
		mag = -mag
	}
	return uint32(mag & (1<<k - 1))
}

func VerifH_C05_toInt32_float() {
	f := verifNondetFloat64()
	got := toInt32(Value{kind: valueNumber, value: f})
	want := int32(refModPow2(math.Float64bits(f), 32))
	verifCover("reached")
	verifAssert(got == want, "ES5 9.5 ToInt32 on float64")
}
