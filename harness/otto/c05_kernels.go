//go:build verif

package otto

import "math"

// refToUint64Mod computes ES5 9.5-9.7 "sign(x)*floor(abs(x)) modulo 2^k" on the
// IEEE bits with integer arithmetic only (k <= 32).
func refModPow2(bits uint64, k uint) uint32 {
	exp := int((bits >> 52) & 0x7FF)
	mant := bits & (1<<52 - 1)
	neg := bits>>63 != 0
	if exp == 0x7FF { // NaN, +-Inf
		return 0
	}
	if exp == 0 { // zero, subnormal: |x| < 1
		return 0
	}
	mant |= 1 << 52
	// value = mant * 2^(exp-1075)
	sh := exp - 1075
	var mag uint64
	if sh >= 0 {
		if sh >= 64 {
			mag = 0 // multiple of 2^64 => 0 mod 2^k
		} else {
			mag = mant << uint(sh) // overflow bits drop: arithmetic mod 2^64
		}
	} else {
		if -sh >= 64 {
			mag = 0
		} else {
			mag = mant >> uint(-sh) // floor of the magnitude
		}
	}
	if neg {
		mag = -mag
	}
	return uint32(mag & (1<<k - 1))
}

// verifF64Window returns a symbolic double restricted to one of 24 windows
// that together cover all 2^64 bit patterns: |f| < 2^63 (incl. zeros and
// subnormals), the 21 binades 2^63..2^84, everything finite above, and NaN/Inf.
// Splitting by binade keeps each FP query small; the union is the whole type.
func verifF64Window() float64 {
	f := verifNondetFloat64()
	bits := math.Float64bits(f)
	exp := int((bits >> 52) & 0x7FF)
	k := verifChoose(24)
	switch {
	case k == 0:
		verifAssume(exp < 1023+63)
	case k <= 21:
		verifAssume(exp == 1023+62+k)
	case k == 22:
		verifAssume(exp >= 1023+84 && exp < 0x7FF)
	default:
		verifAssume(exp == 0x7FF)
	}
	return f
}

func VerifH_C05_toInt32_float() {
	f := verifF64Window()
	got := toInt32(Value{kind: valueNumber, value: f})
	want := int32(refModPow2(math.Float64bits(f), 32))
	verifCover("reached")
	verifAssert(got == want, "ES5 9.5 ToInt32 on float64")
}

func VerifH_C05_toUint32_float() {
	f := verifF64Window()
	got := toUint32(Value{kind: valueNumber, value: f})
	want := refModPow2(math.Float64bits(f), 32)
	verifCover("reached")
	verifAssert(got == want, "ES5 9.6 ToUint32 on float64")
}

func VerifH_C05_toUint16_float() {
	f := verifF64Window()
	got := toUint16(Value{kind: valueNumber, value: f})
	want := uint16(refModPow2(math.Float64bits(f), 16))
	verifCover("reached")
	verifAssert(got == want, "ES5 9.7 ToUint16 on float64")
}
