//go:build verif

package otto

// C10-H3: String.prototype.search / match / replace / split on top of the
// matcher (ES5 15.5.4.10-14) for an ASCII subject of 0..3 symbolic bytes.
func VerifH_C10_string_protocol() {
	vm := New()
	n := verifChoose(verifParam("maxlen", 3) + 1)
	s := verifNondetString(n)
	for i := 0; i < n; i++ {
		verifAssume(s[i] < 0x80)
	}
	vm.Set("s", s)
	first, count := -1, 0
	for i := 0; i < n; i++ {
		if s[i] == 'a' {
			if first < 0 {
				first = i
			}
			count++
		}
	}
	verifCover("reached")
	switch verifChoose(9) {
	case 0:
		v, ok := verifRun(vm, "s.search(/a/)")
		if ok {
			f, _ := v.ToFloat()
			verifAssert(f == float64(first), "15.5.4.12 search: index of the first match or -1")
		}
	case 1:
		v, ok := verifRun(vm, "var re = /a/g; re.lastIndex = 2; var m = s.match(re); m === null ? 0 : m.length")
		verifAssert(ok, "match returns null or an array")
		if ok {
			f, _ := v.ToFloat()
			verifAssert(f == float64(count), "15.5.4.10 match with a global regexp: all matches (lastIndex starts from 0)")
			li, _ := vm.Run("re.lastIndex")
			lf, _ := li.ToFloat()
			verifAssertK(lf == 0, "C10-match-global-lastindex", count > 0, "15.5.4.10: lastIndex is 0 afterwards")
		}
	case 2:
		v, ok := verifRun(vm, "s.replace(/a/g, '<$&>')")
		if ok {
			want := ""
			for i := 0; i < n; i++ {
				if s[i] == 'a' {
					want += "<a>"
				} else {
					want += string([]byte{s[i]})
				}
			}
			verifAssert(v.String() == want, "15.5.4.11 replace (global, $&)")
		}
	case 3: // replacement patterns with one capture group, first match only
		r := verifNondetString(2)
		verifAssume(r[0] < 0x80 && r[1] < 0x80)
		vm.Set("r", r)
		v, ok := verifRun(vm, "s.replace(/(a)/, r)")
		if ok && first >= 0 {
			var rep string
			known := true
			switch {
			case r[0] != '$':
				if r[1] == '$' {
					known = true
				}
				rep = r
			case r[1] == '$':
				rep = "$"
			case r[1] == '&' || r[1] == '1':
				rep = "a"
			case r[1] == '`':
				rep = s[:first]
			case r[1] == '\'':
				rep = s[first+1:]
			case r[1] >= '2' && r[1] <= '9':
				known = false // $n with n > number of groups: implementation-defined
			default:
				rep = r
			}
			if known {
				verifAssert(v.String() == s[:first]+rep+s[first+1:], "15.5.4.11 replace: replacement text patterns")
			}
		} else if ok {
			verifAssert(v.String() == s, "replace without a match returns the subject")
		}
	case 5: // search ignores the global flag and lastIndex, and leaves lastIndex alone
		k := verifChoose(n + 2)
		vm.Set("k", k)
		v, ok := verifRun(vm, "var re = /a/g; re.lastIndex = k; s.search(re)")
		if ok {
			f, _ := v.ToFloat()
			verifAssert(f == float64(first), "15.5.4.12 search: lastIndex and global are ignored")
			li, _ := vm.Run("re.lastIndex")
			lf, _ := li.ToFloat()
			verifAssert(lf == float64(k), "15.5.4.12 search: lastIndex is left unchanged")
		}
	case 6: // $` and $' in a global replace refer to the whole subject around each match
		v, ok := verifRun(vm, "s.replace(/a/g, \"[$`|$']\")")
		if ok {
			want := ""
			for i := 0; i < n; i++ {
				if s[i] == 'a' {
					want += "[" + s[:i] + "|" + s[i+1:] + "]"
				} else {
					want += string([]byte{s[i]})
				}
			}
			verifAssert(v.String() == want, "15.5.4.11 replace (global): $` is the subject before the match, $' the subject after it")
		}
	case 7: // split by a separator that can match the empty string: /a*/ never yields empty pieces inside, [] for the empty subject
		v, ok := verifRun(vm, "s.split(/a*/).join('|')")
		if ok {
			// ES5 15.5.4.14: scanning from q, an empty match at the current piece start
			// advances; a non-empty or later match ends the piece
			var pieces []string
			p := 0
			q := 0
			for q < n {
				e := q
				for e < n && s[e] == 'a' {
					e++
				}
				if e == p { // empty match where the piece starts: move on
					q++
					continue
				}
				pieces = append(pieces, s[p:q])
				p, q = e, e
			}
			want := ""
			if n > 0 {
				pieces = append(pieces, s[p:])
				for i, pc := range pieces {
					if i > 0 {
						want += "|"
					}
					want += pc
				}
			}
			verifAssert(v.String() == want, "15.5.4.14 split by /a*/")
			l, _ := vm.Run("s.split(/a*/).length")
			lf, _ := l.ToFloat()
			verifAssert(lf == float64(len(pieces)), "15.5.4.14 split by /a*/: number of pieces ([] for the empty subject)")
		}
	case 8: // split with a capture group and a limit
		lim := verifChoose(4)
		vm.Set("lim", lim)
		v, ok := verifRun(vm, "s.split(/(a)/, lim).join('|')")
		if ok {
			var all []string
			p := 0
			for i := 0; i < n; i++ {
				if s[i] == 'a' {
					all = append(all, s[p:i], "a")
					p = i + 1
				}
			}
			all = append(all, s[p:])
			if len(all) > lim {
				all = all[:lim]
			}
			want := ""
			for i, pc := range all {
				if i > 0 {
					want += "|"
				}
				want += pc
			}
			verifAssert(v.String() == want, "15.5.4.14 split with captures and a limit")
		}
	default:
		v, ok := verifRun(vm, "var parts = s.split(/a/); parts.length")
		if ok {
			f, _ := v.ToFloat()
			want := count + 1
			if n == 0 {
				want = 1
			}
			verifAssert(f == float64(want), "15.5.4.14 split by a regexp: number of pieces")
			j, _ := vm.Run("parts.join('a')")
			verifAssert(j.String() == s, "split pieces joined by the separator give the subject back")
		}
	}
}
