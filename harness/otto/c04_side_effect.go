//go:build verif

package otto

var verifTokenAlphabet = func() (t [256]bool) {
	for _, c := range []byte(" \n;:,.(){}[]a1'\"/=+-!?<&|") {
		t[c] = true
	}
	return
}()

// C04: rejected source has no side effect on a runtime asked to run it: a
// program whose first statement would assign a global, followed by 0..2
// symbolic bytes, either runs (marker set) or is rejected as a whole with a
// SyntaxError / ReferenceError and leaves the runtime untouched and usable.
func VerifH_C04_no_side_effect() {
	vm := New()
	vm.Run("var marker = 0")
	n := verifChoose(verifParam("holes", 2) + 1)
	h := verifNondetString(n)
	for i := 0; i < n; i++ {
		verifAssume(verifTokenAlphabet[h[i]])
	}
	src := "marker = 1; f(" + h
	var err error
	kind, _ := verifCatch(func() { _, err = vm.Run(src) })
	verifCover("reached")
	verifAssert(kind == verifNormal, "no Go panic escapes Run")
	// does the text parse at all? (the parser is the judge; its own totality is C04's other harnesses)
	_, perr := vm.Compile("", src)
	m, _ := vm.Get("marker")
	mf, _ := m.ToFloat()
	if perr != nil {
		verifCover("rejected")
		verifAssert(err != nil, "a program that does not parse is not run")
		verifAssert(mf == 0, "rejected source has no side effect on the runtime")
	} else {
		verifAssert(mf == 1, "an accepted program runs its first statement")
	}
	v, e2 := vm.Run("marker + 1")
	vf, _ := v.ToFloat()
	verifAssert(e2 == nil && vf == mf+1, "the runtime is usable afterwards")
}
