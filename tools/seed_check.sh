#!/bin/sh
# usage: seedtry_check.sh <seed> <check args...>
seed=$1; shift
wt=/tmp/seedtry-$$
git -C /repo worktree add -q --detach $wt HEAD || exit 2
trap 'git -C /repo worktree remove --force $wt' EXIT
(cd $wt && git apply /verif/seeded/$seed/patch.diff) || exit 2
cd /verif && ./check "$@" --no-evidence --repo $wt
