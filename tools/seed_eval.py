#!/usr/bin/env python3
"""Confirm a seeded change in a scratch worktree and run checks against it.

usage: seed_eval.py <seed-dir> <demo-subdir> <check-id>[:tier] ...
  <seed-dir> contains patch.diff and one *_test.go demo; <demo-subdir> is the
  package directory the demo belongs in ('.' for the root package).
Prints a JSON summary; never leaves /repo modified.
"""
import glob, json, os, subprocess, sys, shutil, time

ENV = dict(os.environ, GOFLAGS="-mod=mod", GOPROXY="off", GOSUMDB="off", GOTOOLCHAIN="local")

def run(cmd, cwd=None, timeout=3600):
    p = subprocess.run(cmd, cwd=cwd, env=ENV, shell=isinstance(cmd, str), capture_output=True, text=True, errors="replace", timeout=timeout)
    return p.returncode, p.stdout + p.stderr

def main():
    seed, sub = os.path.abspath(sys.argv[1]), sys.argv[2]
    checks = sys.argv[3:]
    patch = os.path.join(seed, "patch.diff")
    demos = glob.glob(os.path.join(seed, "*_test.go"))
    out = {"seed": seed, "confirm": {}, "checks": {}}
    wt = "/tmp/seedwt-%d" % os.getpid()
    if "--skip-confirm" not in checks:
        run(["git", "-C", "/repo", "worktree", "add", "-q", "--detach", wt, "HEAD"])
        try:
            rc, o = run(["git", "apply", "--check", patch], cwd=wt)
            out["confirm"]["applies"] = rc == 0
            if rc == 0:
                demo_dst = [os.path.join(wt, sub, os.path.basename(d)) for d in demos]
                for d, dst in zip(demos, demo_dst):
                    shutil.copy(d, dst)
                rc, o = run("go test -vet=off -count=1 ./%s/ 2>&1 | tail -5" % sub, cwd=wt)
                out["confirm"]["demo_passes_without_patch"] = "FAIL" not in o and "ok" in o
                for dst in demo_dst:
                    os.remove(dst)
                run(["git", "apply", patch], cwd=wt)
                rc1, o1 = run("go build ./...", cwd=wt)
                rc2, o2 = run("go test -vet=off -count=1 ./... 2>&1 | grep -v 'no test files'", cwd=wt)
                out["confirm"]["builds"] = rc1 == 0
                out["confirm"]["suite_passes_with_patch"] = "FAIL" not in o2 and o2.count("ok") >= 3
                for d, dst in zip(demos, demo_dst):
                    shutil.copy(d, dst)
                rc, o = run("go test -vet=off -count=1 ./%s/ 2>&1 | tail -15" % sub, cwd=wt)
                out["confirm"]["demo_fails_with_patch"] = "FAIL" in o
        finally:
            run(["git", "-C", "/repo", "worktree", "remove", "--force", wt])
    checks = [c for c in checks if not c.startswith("--")]
    if checks:
        # the checks run against a scratch worktree with the change applied,
        # never against /repo itself
        rw = "/tmp/seedrepo-%d" % os.getpid()
        run(["git", "-C", "/repo", "worktree", "add", "-q", "--detach", rw, "HEAD"])
        try:
            rc, o = run(["git", "apply", patch], cwd=rw)
            if rc != 0:
                out["checks"]["_apply"] = o
            else:
                for c in checks:
                    parts = c.split(":")
                    cid = parts[0]
                    tier = parts[1] if len(parts) > 1 and parts[1] else "quick"
                    extra = ["--only", parts[2]] if len(parts) > 2 else []
                    t0 = time.time()
                    rc, o = run(["./check", cid, "--tier", tier, "--no-evidence", "--repo", rw] + extra, cwd=os.environ.get("VERIF_DIR", "/verif"), timeout=7200)
                    viol = [l for l in o.splitlines() if l.startswith("VIOLATION")]
                    detail = [l.strip() for l in o.splitlines() if l.startswith("  harness=")][:3]
                    inc = [l for l in o.splitlines() if l.startswith("INCONCLUSIVE") or l.startswith("ENGINE-MISMATCH")][:3]
                    out["checks"][c] = {"exit": rc, "violations": len(viol), "detail": detail, "other": inc, "wall_s": round(time.time() - t0, 1)}
        finally:
            run(["git", "-C", "/repo", "worktree", "remove", "--force", rw])
    print(json.dumps(out, indent=1))

main()
