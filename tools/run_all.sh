#!/bin/sh
# Runs every registered check at a tier from a private snapshot of /verif
# (so that edits in /verif do not disturb it); prints the SUMMARY lines.
tier=${1:-quick}
snap=/tmp/verif-runall-$$
rsync -a --exclude .git --exclude replays /verif/ $snap/
cd $snap
for id in $(python3 -c "import json;print(' '.join(sorted(json.load(open('checks.json')).keys())))"); do
  ./check $id --tier $tier --no-evidence 2>&1 | grep -E "^(SUMMARY|VIOLATION|KNOWN-FINDING|ENGINE-MISMATCH|INCONCLUSIVE)" | cut -c1-300
done
rm -rf $snap
