#!/usr/bin/env python3
"""Regenerates the generated parts of DESIGN.md (between marker comments) from
checks.json, known_findings.json and seeded/*/meta.json."""
import json, os, re, glob
root = os.path.join(os.path.dirname(os.path.abspath(__file__)), "..")
checks = json.load(open(os.path.join(root, "checks.json")))
known = json.load(open(os.path.join(root, "known_findings.json")))["findings"]

def checks_table():
    out = ["| prop | harness | quick bound | thorough bound (if different) |", "|---|---|---|---|"]
    for pid in sorted(checks):
        q = checks[pid]["tiers"]["quick"]["harnesses"]
        t = checks[pid]["tiers"].get("thorough", {"harnesses": []})["harnesses"]
        seen = set()
        def key(h): return h["name"] + ("/" + h["label"] if h.get("label") else "") + (json.dumps(h.get("params", {}), sort_keys=True) if False else "")
        tmap = {}
        for h in t:
            tmap.setdefault(h["name"] + "/" + h.get("label", ""), []).append(h)
        for h in q:
            k = h["name"] + "/" + h.get("label", "")
            th = tmap.get(k, [])
            tb = ""
            if th:
                cand = th.pop(0)
                if cand.get("bounds") not in (h.get("bounds"), "as quick"):
                    tb = cand.get("bounds", "")
            out.append("| %s | `%s`%s | %s | %s |" % (pid, h["name"].replace("VerifH_", ""), (" (" + h["label"] + ")") if h.get("label") else "", h.get("bounds", ""), tb))
            seen.add(k)
        for k, lst in tmap.items():
            for h in lst:
                if k not in seen or True:
                    out.append("| %s | `%s`%s | (thorough only) | %s |" % (pid, h["name"].replace("VerifH_", ""), (" (" + h["label"] + ")") if h.get("label") else "", h.get("bounds", "")))
    return "\n".join(out)

def fixes_table():
    out = ["| property | status | finding | failing input |", "|---|---|---|---|"]
    for f in known:
        out.append("| %s | %s | %s | `%s` |" % (f["property"], f["status"], f["what"], f.get("input", "").replace("|", "\\|")))
    return "\n".join(out)

def seeds_table():
    out = ["| seed | change | needs to manifest | result | if missed: why |", "|---|---|---|---|---|"]
    for d in sorted(glob.glob(os.path.join(root, "seeded", "*", "meta.json"))):
        m = json.load(open(d))
        name = os.path.basename(os.path.dirname(d))
        res = ("caught by " + ", ".join(m["caught_by"])) if m["caught_by"] else m["status"]
        out.append("| %s | %s | %s | %s | %s |" % (name, m["change"], m["needs_to_manifest"], res, m.get("why_missed", "")))
    return "\n".join(out)

def seeds_summary():
    metas = [json.load(open(d)) for d in sorted(glob.glob(os.path.join(root, "seeded", "*", "meta.json")))]
    total = len(metas)
    caught = sum(1 for m in metas if m["caught_by"])
    gone = sum(1 for m in metas if not m["caught_by"] and "no longer" in m["status"])
    missed = sum(1 for m in metas if not m["caught_by"] and m["status"] == "missed")
    other = total - caught - gone - missed
    # first evaluation of every seed (before any strengthening prompted by it)
    first = {}
    for log in sorted(glob.glob(os.path.join(root, "seeded", "eval-logs", "*.log"))):
        for blk in re.split(r"(?m)^=== ", open(log).read())[1:]:
            name = blk.split("\n")[0].strip()
            body = blk[len(name):]
            try:
                j = json.loads(body[body.index("{"):body.rindex("}") + 1])
            except Exception:
                continue
            ch = j.get("checks", {})
            if name in first or not ch:
                continue
            first[name] = (os.path.basename(log)[:2], any(isinstance(v, dict) and v.get("violations", 0) > 0 for v in ch.values()))
    rounds = (("1", ("01", "02", "03", "04", "05")), ("2", ("06", "07")), ("3", ("08", "09")), ("4", ("10",)), ("5", ("14",)), ("6", ("17",)))
    lines = ["| round | seeds | caught at first evaluation |", "|---|---|---|"]
    for r, pre in rounds:
        xs = [c for (l, c) in first.values() if l in pre]
        lines.append("| %s | %d | %d |" % (r, len(xs), sum(1 for c in xs if c)))
    lines.append("")
    tail = ""
    if gone:
        tail += ", %d no longer applicable (the patch overlaps a later `fix:` commit and could not be rebased meaningfully)" % gone
    if other:
        tail += ", %d not evaluated" % other
    lines.append("Final state, every seed re-evaluated against the final checks and the final (repaired) tree (patches that a later `fix:` commit overlapped were rebased by hand first): **%d seeds, %d caught, %d missed**%s." % (total, caught, missed, tail))
    return "\n".join(lines)

p = os.path.join(root, "DESIGN.md")
s = open(p).read()
for tag, fn in (("CHECKS", checks_table), ("FIXES", fixes_table), ("SEEDSUM", seeds_summary), ("SEEDS", seeds_table)):
    b, e = "<!-- %s-BEGIN -->" % tag, "<!-- %s-END -->" % tag
    if b in s and e in s:
        i, j = s.index(b) + len(b), s.index(e)
        s = s[:i] + "\n" + fn() + "\n" + s[j:]
open(p, "w").write(s)
print("DESIGN.md tables regenerated")
