#!/usr/bin/env python3
"""Regenerates the generated parts of DESIGN.md (between marker comments) from
checks.json, known_findings.json and seeded/*/meta.json."""
import json, os, re, glob
root = os.path.join(os.path.dirname(os.path.abspath(__file__)), "..")
checks = json.load(open(os.path.join(root, "checks.json")))
known = json.load(open(os.path.join(root, "known_findings.json")))["findings"]

def checks_table():
    out = ["| prop | harness | quick bound | thorough bound (if different) |", "|---|---|---|---|"]
    for pid in sorted(checks):
        q = checks[pid]["tiers"]["quick"]["harnesses"]
        t = checks[pid]["tiers"].get("thorough", {"harnesses": []})["harnesses"]
        seen = set()
        def key(h): return h["name"] + ("/" + h["label"] if h.get("label") else "") + (json.dumps(h.get("params", {}), sort_keys=True) if False else "")
        tmap = {}
        for h in t:
            tmap.setdefault(h["name"] + "/" + h.get("label", ""), []).append(h)
        for h in q:
            k = h["name"] + "/" + h.get("label", "")
            th = tmap.get(k, [])
            tb = ""
            if th:
                cand = th.pop(0)
                if cand.get("bounds") not in (h.get("bounds"), "as quick"):
                    tb = cand.get("bounds", "")
            out.append("| %s | `%s`%s | %s | %s |" % (pid, h["name"].replace("VerifH_", ""), (" (" + h["label"] + ")") if h.get("label") else "", h.get("bounds", ""), tb))
            seen.add(k)
        for k, lst in tmap.items():
            for h in lst:
                if k not in seen or True:
                    out.append("| %s | `%s`%s | (thorough only) | %s |" % (pid, h["name"].replace("VerifH_", ""), (" (" + h["label"] + ")") if h.get("label") else "", h.get("bounds", "")))
    return "\n".join(out)

def fixes_table():
    out = ["| property | status | finding | failing input |", "|---|---|---|---|"]
    for f in known:
        out.append("| %s | %s | %s | `%s` |" % (f["property"], f["status"], f["what"], f.get("input", "").replace("|", "\\|")))
    return "\n".join(out)

def seeds_table():
    out = ["| seed | change | needs to manifest | result | if missed: why |", "|---|---|---|---|---|"]
    for d in sorted(glob.glob(os.path.join(root, "seeded", "*", "meta.json"))):
        m = json.load(open(d))
        name = os.path.basename(os.path.dirname(d))
        res = ("caught by " + ", ".join(m["caught_by"])) if m["caught_by"] else m["status"]
        out.append("| %s | %s | %s | %s | %s |" % (name, m["change"], m["needs_to_manifest"], res, m.get("why_missed", "")))
    return "\n".join(out)

p = os.path.join(root, "DESIGN.md")
s = open(p).read()
for tag, fn in (("CHECKS", checks_table), ("FIXES", fixes_table), ("SEEDS", seeds_table)):
    b, e = "<!-- %s-BEGIN -->" % tag, "<!-- %s-END -->" % tag
    if b in s and e in s:
        i, j = s.index(b) + len(b), s.index(e)
        s = s[:i] + "\n" + fn() + "\n" + s[j:]
open(p, "w").write(s)
print("DESIGN.md tables regenerated")
