#!/bin/sh
# usage: seed_import.sh <agent-dir>/<n> <seed-id> <demo-subdir> <check>[:tier[:only]] ...
#   copies a sub-agent's deliverable (patch.diff, demo *_test.go, notes.txt) to
#   seeded/<seed-id>/ and confirms + evaluates it with seed_eval.py; prints the
#   "=== <seed-id>" block that seed_meta.py reads from seeded/eval-logs/*.log
src=$1; id=$2; sub=$3; shift 3
dst=/verif/seeded/$id
mkdir -p $dst
cp $src/patch.diff $dst/patch.diff
for f in $src/*_test.go; do [ -f "$f" ] && cp $f $dst/; done
[ -f $src/notes.txt ] && cp $src/notes.txt $dst/notes.txt
echo "=== $id"
python3 /verif/tools/seed_eval.py $dst $sub "$@"
