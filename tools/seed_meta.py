#!/usr/bin/env python3
"""Collects seed_eval results (JSON blocks in log files given as arguments, later
logs override earlier ones per check) into seeded/<id>/meta.json and prints the
markdown table used in DESIGN.md."""
import json, os, re, sys
root = os.path.join(os.path.dirname(os.path.abspath(__file__)), "..")
res = {}
import glob
logs = sys.argv[1:] or sorted(glob.glob(os.path.join(root, 'seeded', 'eval-logs', '*.log')))
for log in logs:
    txt = open(log).read()
    for blk in re.split(r"(?m)^=== ", txt)[1:]:
        name = blk.split("\n")[0].strip()
        body = blk[len(name):]
        try:
            j = json.loads(body[body.index("{"):body.rindex("}") + 1])
        except Exception:
            continue
        r = res.setdefault(name, {"confirm": {}, "checks": {}})
        if j.get("confirm"):
            r["confirm"] = j["confirm"]
        for k, v in j.get("checks", {}).items():
            r["checks"][k] = v
NEEDS = json.load(open(os.path.join(root, "seeded", "needs.json")))
rows = []
for name in sorted(os.listdir(os.path.join(root, "seeded"))):
    d = os.path.join(root, "seeded", name)
    if not os.path.isdir(d) or not os.path.exists(os.path.join(d, 'patch.diff')):
        continue
    r = res.get(name, {"confirm": {}, "checks": {}})
    prop = name.split("-")[0]
    caught = [k for k, v in r["checks"].items() if isinstance(v, dict) and v.get("violations", 0) > 0]
    ran = [k for k, v in r["checks"].items() if isinstance(v, dict)]
    conf = r["confirm"]
    confirmed = bool(conf) and all(conf.get(k) for k in ["applies", "demo_passes_without_patch", "builds", "suite_passes_with_patch", "demo_fails_with_patch"])
    notapply = "_apply" in r["checks"] or (conf and not conf.get("applies", True))
    meta = {
        "property": prop,
        "change": NEEDS.get(name, {}).get("change", ""),
        "needs_to_manifest": NEEDS.get(name, {}).get("needs", ""),
        "confirmed_by_me": {"in_scratch_worktree": confirmed, "steps": conf,
                            "how": "tools/seed_eval.py: git worktree of /repo HEAD; demo passes without the patch; with the patch: go build ./..., full go test -vet=off ./... pass, demo fails"},
        "checks_run": {k: {"violations": v["violations"], "exit": v["exit"], "wall_s": v["wall_s"], "detail": v.get("detail", [])[:1]} for k, v in r["checks"].items() if isinstance(v, dict)},
        "caught_by": caught,
        "status": "caught" if caught else ("patch no longer applies to the repaired tree (overlaps a later fix: commit)" if notapply else ("missed" if ran else "not evaluated")),
        "why_missed": NEEDS.get(name, {}).get("why_missed", "") if not caught else "",
    }
    json.dump(meta, open(os.path.join(d, "meta.json"), "w"), indent=1)
    rows.append("| %s | %s | %s | %s |" % (name, meta["change"], ", ".join(caught) if caught else meta["status"], meta["why_missed"]))
print("| seed | change (needs ... to manifest) | caught by | if missed: why |\n|---|---|---|---|")
print("\n".join(rows))
