#!/usr/bin/env python3
"""Regenerates MANIFEST.json from checks.json + the per-property texts below."""
import json, os
root = os.path.join(os.path.dirname(__file__), "..")
checks = json.load(open(os.path.join(root, "checks.json")))

TECH = "SMT-based bounded symbolic execution of the real functions from go/ssa (solver verdict over all inputs within the stated bound) + native replay of every model"
NOTE = ("trusted: go/ssa's translation, the engine's instruction semantics and intrinsics (every cover witness, counterexample and known finding is replayed "
        "against the natively compiled code), z3 4.8.12 / z3 5.1.0 / cvc5 1.0, the ES5 oracles in /verif/harness; bounds, stubs and what lies outside the claim are listed in the evidence file")

TEXT = {
 "C01": "only a template family is decided, not the quantifier over programs: 8 fixed program templates covering switch fall-through, labelled break/continue, try/catch/finally completion, hoisting and closures, this-binding, the arguments object, with, direct/indirect eval, statement completion values and uncaught-exception classes are run through the real interpreter with their control data (discriminants, loop bounds, branch conditions, operands, this-values) symbolic, by each of the five submission routes, and the recorded host-call sequence, completion value and error class are asserted against a Go transcription of each template; programs outside the templates are outside the claim",
 "C02": "bounded symbolic execution of built-ins under the real catchPanic with symbolic argument payloads: every implicit Go panic site (index, slice bound, nil dereference, type assertion) is a solver query over all doubles / short byte strings; decides that no Go run-time panic crosses the API boundary within the stated receiver/argument shapes",
 "C03": "bounded symbolic execution of the real parser on templates whose operator/literal bytes are symbolic; the tree shape or literal value is asserted against an ES5 precedence / literal-value oracle for every byte assignment",
 "C04": "bounded symbolic execution of the real lexer+parser+ast.Walk on fully symbolic source bytes (every byte string up to the bound, and statement templates with symbolic holes): panic-freedom, error positions inside the input, node spans, Walk contract",
 "C05": "bounded symbolic execution of otto's conversion and operator kernels; each assertion real(x) == ES5-reference(x) is decided over the whole domain of the symbolic operands (all 2^64 doubles, every Go integer kind, short strings)",
 "C06": "bounded symbolic execution of the text->number built-ins and of the radix/precision range checks against ES5 grammar recognisers; digit generation (strconv.FormatFloat) is stubbed and not claimed",
 "C07": "one inductive step of [[DefineOwnProperty]]/[[Put]]/[[Delete]]/freeze/seal from a symbolic valid pre-state (attribute bits, descriptor shape, extensibility symbolic) against a transcription of ES5 8.12 / 15.2.3",
 "C08": "bounded symbolic execution of array-index recognition, the length step and the relative-index helpers for all doubles x all lengths, and of Array methods on receivers of bounded size with symbolic numeric arguments",
 "C09": "bounded symbolic execution of String.prototype built-ins on symbolic valid-UTF-8 subjects and arbitrary double positions against a UTF-16 reference",
 "C10": "bounded symbolic execution of the pattern translator on symbolic pattern bytes (totality, escape values, rejection of look-ahead/back-references); the RE2 matcher itself is outside the claim",
 "C12": "only the invalid-date part of the property is decided: for every NaN / infinite time value or field, constructor, Date.UTC, setUTC* and 19 accessors yield NaN (bounded symbolic execution through the public API); the calendar algebra for valid time values could not be decided by any available solver and is explicitly outside the claim",
 "C13": "bounded symbolic execution of Math built-ins over all doubles against IEEE/ES5 references, and of escape/URI coding on short symbolic strings",
 "C15": "bounded symbolic execution of toValue/export/To* conversions for every Go numeric kind at full width",
 "C16": "bounded symbolic execution of the numeric conversion Value.toReflectValue (used for writes to bridged slices, arrays and struct fields) for any double x every numeric target kind through a reflect shim: an error, or the delivered Go value equals the JavaScript number; and of runtime.convertCallParameter for numeric parameters of bridged Go functions, and element writes to bridged slices through the public API; the reflective call wrapper itself (arity, variadics), structs and maps are outside the claim",
 "C17": "symbolic execution of the real cloner on a hand-built heap containing every reference kind, scalars symbolic; isomorphism, disjointness and independence under a symbolic mutation",
 "C18": "the interrupt poll of the real evaluator is made a symbolic choice: for fixed program families every poll index up to the bound is explored and the unwinding/rest-state assertions are decided on each path",
 "C19": "bounded symbolic execution of the line/column arithmetic of parser and file package on symbolic source bytes against an ES5 7.3 line-terminator oracle; trace capture with symbolic limits",
}
NA = [
 ("C01", "quantifier over programs: a symbolic program degenerates into enumerating concrete ASTs (dispatch is on node type) and there is no independent ES5 evaluator to assert against; what the solver can decide about evaluation with symbolic data is claimed under C05/C07/C08/C18"),
 ("C11", "parsing/serialisation happens inside encoding/json (reflection-driven decoder/encoder), which the engine cannot execute symbolically and for which no contract precise enough to carry the grammar claim exists"),
 ("C14", "a finite, fully concrete (owner, property, attribute) table: there is no symbolic variable for a solver to decide; checking it is exhaustive enumeration, a different technique"),
 ("C20", "data-race freedom under real goroutine interleavings: the engine is single-threaded and models neither a scheduler nor the memory model (concurrency is a declared weak target of this technique family)"),
]
PENDING = {
}

m = {
 "version": 1,
 "setup_cmd": "cd /verif/engine && GOFLAGS=-mod=mod GOPROXY=off GOSUMDB=off GOTOOLCHAIN=local go build -o /verif/bin/symgo .",
 "hooks": {
  "guard": "verif",
  "enable": "harness files carry //go:build verif and are injected into /repo's packages through go/packages Overlay (symbolic run) and `go test -overlay -tags verif` (native replay); nothing is added to /repo",
  "baseline_off_cmd": "cd /repo && go test -vet=off -count=1 -timeout 25m ./...",
  "source_commits": [],
  "add_only": True,
 },
 "engines": [{"name": "symgo", "path": "/verif/engine", "serves_properties": sorted(checks.keys()),
              "kind_free_text": "symbolic executor for go/ssa written for this task (path-wise exploration, SMT-LIB2 to persistent z3 / z3 5.1 / cvc5 processes, model reuse, native replay of solver models through go test -overlay)"}],
 "checks": [],
 "not_applicable": [{"property_id": p, "reason": r} for p, r in NA if p not in checks],
 "notes": "fix: commits in /repo and their originating counterexamples are recorded in /verif/known_findings.json; DESIGN.md explains bounds and stubs per property.",
}
claimed = set()
for pid in sorted(checks.keys()):
    spec = checks[pid]
    chk = {
     "property_id": pid,
     "quick_cmd": "./check %s --tier quick" % pid,
     "evidence_file": "/verif/evidence/%s.json" % pid,
     "replay_cmd_template": "./bin/symgo replay {path}",
     "engine": "symgo",
     "level_claimed": {"category": "model_checking", "text": TEXT[pid], "design_ref": "DESIGN.md §4 " + pid},
     "level_note": NOTE,
     "technique": TECH,
    }
    if "thorough" in spec["tiers"]:
        chk["thorough_cmd"] = "./check %s --tier thorough" % pid
    m["checks"].append(chk)
    claimed.add(pid)
for pid, reason in sorted(PENDING.items()):
    if pid not in claimed:
        m["not_applicable"].append({"property_id": pid, "reason": reason})
allp = ["C%02d" % i for i in range(1, 21)]
for pid in allp:
    if pid not in claimed and pid not in [x["property_id"] for x in m["not_applicable"]]:
        m["not_applicable"].append({"property_id": pid, "reason": "not claimed at this commit: harnesses for this property are not yet registered (work in progress, see DESIGN.md §4)"})
m["not_applicable"].sort(key=lambda x: x["property_id"])
json.dump(m, open(os.path.join(root, "MANIFEST.json"), "w"), indent=1)
print("claimed:", sorted(claimed))
