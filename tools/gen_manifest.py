#!/usr/bin/env python3
"""Regenerates MANIFEST.json from checks.json + the per-property texts below."""
import json, os
root = os.path.join(os.path.dirname(__file__), "..")
checks = json.load(open(os.path.join(root, "checks.json")))

TECH = "SMT-based bounded symbolic execution of the real functions from go/ssa (solver verdict over all inputs within the stated bound) + native replay of every model"
NOTE = ("trusted: go/ssa's translation, the engine's instruction semantics and intrinsics (every cover witness, counterexample and known finding is replayed "
        "against the natively compiled code), z3 4.8.12 / z3 5.1.0 / cvc5 1.0, the ES5 oracles in /verif/harness; bounds, stubs and what lies outside the claim are listed in the evidence file")

TEXT = {
 "C01": "only a template family is decided, not the quantifier over programs: fixed program templates covering switch (fall-through, discriminant evaluated once, completion values), labelled break/continue in every loop kind, try/catch/finally completion and catch scope, hoisting and closures, this-binding, the arguments object, with, direct/indirect eval, the Function constructor's scope, constructors with primitive prototypes, for-in under deletion, statement completion values and uncaught-exception classes are run through the real interpreter with their control data (discriminants, loop bounds, branch conditions, operands, this-values) symbolic, by the five submission routes, and the recorded host-call sequence, completion value and error class are asserted against a Go transcription of each template; programs outside the templates are outside the claim",
 "C02": "bounded symbolic execution, through the public API under the real catchPanic, of (a) every reachable built-in x receiver kind x 0..1 argument kinds (thorough: 2 arguments for the built-ins whose second argument matters, every function as a constructor and through bind) with symbolic payloads, (b) 24 groups of Go-side API calls (Value / Object accessors, Call, Object, Eval, ToValue, Set, Get, Compile, Export) on 19 kinds of subject value including objects with throwing conversions, throwing accessors, cycles and shared substructures, (c) the stack depth limit: every implicit Go panic site reached is a solver query over all payloads; decides that no Go panic crosses the API boundary within the stated shapes. Unbounded Go recursion shows up only as an exceeded call-depth bound (inconclusive), which is how the Export stack overflow was noticed",
 "C03": "bounded symbolic execution of the real parser on templates whose operator, separator and literal bytes are symbolic; the tree shape or literal value is asserted against an ES5 precedence / grammar / literal-value oracle for every byte assignment (operator pairs, unary / conditional / comma levels, the grammar inside a conditional, ASI after every kind of statement-ending token, restricted productions, the NoIn grammar of for headers, numeric literals, string escapes)",
 "C04": "bounded symbolic execution of the real lexer+parser+ast.Walk on fully symbolic source bytes (every byte string up to the bound, and statement templates with symbolic holes): panic-freedom, error positions inside the input, node spans, Walk contract; 35 programs with early errors, their two halves joined by every white-space / line-terminator separator, must be rejected",
 "C05": "bounded symbolic execution of otto's conversion and operator kernels and of the operators through the public API; each assertion real(x) == ES5-reference(x) is decided over the whole domain of the symbolic operands (all 2^64 doubles, every Go integer kind held inside a Value, short strings, every pair of primitive kinds for the comparison and logical operators)",
 "C06": "bounded symbolic execution of the text->number built-ins and of the radix/precision range checks against ES5 grammar recognisers; digit generation (strconv.FormatFloat) is stubbed and not claimed, but which formatting route is taken is (toFixed above 1e21, radix 10, NaN and infinities), with math.Log10 an uninterpreted function",
 "C07": "one inductive step of [[DefineOwnProperty]]/[[Put]]/[[Delete]]/freeze/seal from a symbolic valid pre-state (attribute bits, descriptor shape, extensibility, values symbolic) against a transcription of ES5 8.12 / 15.2.3, and for-in enumeration order / shadowing through the public API",
 "C08": "bounded symbolic execution of array-index recognition, the length step and the relative-index helpers for all doubles x all lengths, and of Array methods through the public API on receivers of bounded size (slots hole-or-symbolic-double) with symbolic numeric arguments against a sparse-array model: indexOf/lastIndexOf/slice/splice, the iteration callbacks, push/pop/shift/unshift/reverse/concat/map, sort with consistent, default and arbitrary inconsistent comparators",
 "C09": "bounded symbolic execution of String.prototype built-ins through the public API on symbolic valid-UTF-8 subjects (also around a surrogate pair) and arbitrary double positions against a UTF-16 code-unit reference",
 "C10": "bounded symbolic execution of the pattern translator on symbolic pattern bytes (totality, escape values, classes nested in groups, pass-through of the portable subset's syntax, rejection of look-ahead/back-references), and of the exec/test/match/replace/search/split protocol (lastIndex reading, updating and resetting, $-patterns, captures, limits, empty matches) for fixed patterns /a/ /a*/ /$/ /(a)/ on every short ASCII subject with any double as lastIndex; the RE2 matcher runs natively on class representatives and is itself outside the claim",
 "C12": "two parts of the property are decided: (1) for every NaN / infinite time value or field, constructor, Date.UTC, setUTC* and 19 accessors yield NaN; (2) the field normalisation of Date.UTC (ToInteger per field, two-digit years) as a metamorphic equation with Go's time.Date an uninterpreted function. The calendar algebra for valid time values could not be decided by any available solver and is outside the claim",
 "C13": "bounded symbolic execution of Math built-ins over all doubles against IEEE/ES5 references (round, floor, ceil, abs, sqrt, trunc, max/min, the special-case table of pow), isNaN/isFinite, and of escape/unescape/URI coding on short symbolic strings and on every astral code point; transcendental functions are uninterpreted",
 "C15": "bounded symbolic execution of Set -> Get -> Export / To* for every Go scalar kind at full width, named kinds included, and the agreement of the Value predicates with typeof / Number() / Boolean()",
 "C16": "bounded symbolic execution of the numeric conversions of the bridge for any stored number x every numeric target kind through a reflect shim (Value.toReflectValue, runtime.convertCallParameter): an error the script sees, or the delivered Go value equals the JavaScript number; element writes (also past the end) to bridged slices through the public API; the conversion of property names to integer keys of bridged maps; calls of a bridged non-variadic Go function from a script through the real reflective wrapper (arity check, argument conversion, return value). Variadic functions, struct fields and the map operations of package reflect are outside the claim",
 "C17": "symbolic execution of Otto.Copy through the public API on one setup program whose heap contains every reference kind the cloner distinguishes (closures over function / with / catch scopes, accessors, arguments objects, bound functions with object arguments, RegExp, wrapper, Error, Date, sparse array, modified built-in prototypes), scalars symbolic: observational equality of copy and copy-of-copy, and independence under 28 mutation programs applied to any of the three runtimes",
 "C18": "the interrupt poll of the real evaluator is made a symbolic choice: for fixed program families every poll index up to the bound is explored and the unwinding / rest-state / no-further-progress assertions are decided on each path; abnormal exits from 12 nested constructs; the stack depth limit for every limit and depth and, calibrated against an unlimited run, on 13 ways of entering an execution context",
 "C19": "bounded symbolic execution of the line/column arithmetic of parser and file package on symbolic source bytes against an ES5 7.3 line-terminator oracle; trace capture with symbolic limits; call-site line/column of every script frame for 18 call forms placed behind symbolic white space / line terminators; the native error class, name, prototype and message at 40 raise sites with symbolic offending operands",
}
NA = [
 ("C01", "quantifier over programs: a symbolic program degenerates into enumerating concrete ASTs (dispatch is on node type) and there is no independent ES5 evaluator to assert against; what the solver can decide about evaluation with symbolic data is claimed under C05/C07/C08/C18"),
 ("C11", "parsing/serialisation happens inside encoding/json (reflection-driven decoder/encoder), which the engine cannot execute symbolically and for which no contract precise enough to carry the grammar claim exists"),
 ("C14", "a finite, fully concrete (owner, property, attribute) table: there is no symbolic variable for a solver to decide; checking it is exhaustive enumeration, a different technique"),
 ("C20", "data-race freedom under real goroutine interleavings: the engine is single-threaded and models neither a scheduler nor the memory model (concurrency is a declared weak target of this technique family)"),
]
PENDING = {
}

m = {
 "version": 1,
 "setup_cmd": "cd /verif/engine && GOFLAGS=-mod=mod GOPROXY=off GOSUMDB=off GOTOOLCHAIN=local go build -o /verif/bin/symgo .",
 "hooks": {
  "guard": "verif",
  "enable": "harness files carry //go:build verif and are injected into /repo's packages through go/packages Overlay (symbolic run) and `go test -overlay -tags verif` (native replay); nothing is added to /repo",
  "baseline_off_cmd": "cd /repo && go test -vet=off -count=1 -timeout 25m ./...",
  "source_commits": [],
  "add_only": True,
 },
 "engines": [{"name": "symgo", "path": "/verif/engine", "serves_properties": sorted(checks.keys()),
              "kind_free_text": "symbolic executor for go/ssa written for this task (path-wise exploration, SMT-LIB2 to persistent z3 / z3 5.1 / cvc5 processes, model reuse, native replay of solver models through go test -overlay)"}],
 "checks": [],
 "not_applicable": [{"property_id": p, "reason": r} for p, r in NA if p not in checks],
 "notes": "fix: commits in /repo and their originating counterexamples are recorded in /verif/known_findings.json; DESIGN.md explains bounds and stubs per property.",
}
claimed = set()
for pid in sorted(checks.keys()):
    spec = checks[pid]
    chk = {
     "property_id": pid,
     "quick_cmd": "./check %s --tier quick" % pid,
     "evidence_file": "/verif/evidence/%s.json" % pid,
     "replay_cmd_template": "./bin/symgo replay {path}",
     "engine": "symgo",
     "level_claimed": {"category": "model_checking", "text": TEXT[pid], "design_ref": "DESIGN.md §4 " + pid},
     "level_note": NOTE,
     "technique": TECH,
    }
    if "thorough" in spec["tiers"]:
        chk["thorough_cmd"] = "./check %s --tier thorough" % pid
    m["checks"].append(chk)
    claimed.add(pid)
for pid, reason in sorted(PENDING.items()):
    if pid not in claimed:
        m["not_applicable"].append({"property_id": pid, "reason": reason})
allp = ["C%02d" % i for i in range(1, 21)]
for pid in allp:
    if pid not in claimed and pid not in [x["property_id"] for x in m["not_applicable"]]:
        m["not_applicable"].append({"property_id": pid, "reason": "not claimed at this commit: harnesses for this property are not yet registered (work in progress, see DESIGN.md §4)"})
m["not_applicable"].sort(key=lambda x: x["property_id"])
json.dump(m, open(os.path.join(root, "MANIFEST.json"), "w"), indent=1)
print("claimed:", sorted(claimed))
