#!/bin/sh
# usage: seed_try.sh <seed-id> <symgo run args...>  - run one harness against a scratch worktree with the seed applied
seed=$1; shift
wt=/tmp/seedtry-$$
git -C /repo worktree add -q --detach $wt HEAD || exit 2
trap 'git -C /repo worktree remove --force $wt' EXIT
(cd $wt && git apply /verif/seeded/$seed/patch.diff) || exit 2
/verif/bin/symgo run -repo $wt "$@"
