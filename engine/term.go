package main

// Terms: the symbolic scalar language of the engine (Bool, bit-vectors,
// IEEE floating point) with Go-exact constant folding, a concrete evaluator
// (used to reuse solver models as free feasibility witnesses) and an SMT-LIB2
// printer.

import (
	"fmt"
	"math"
	"math/bits"
	"strings"
)

type Kind uint8

const (
	KBool Kind = iota
	KBV
	KFP
)

type Sort struct {
	K Kind
	W int // bit width; for KFP 32 or 64; for KBool 1
}

var (
	SBool = Sort{KBool, 1}
	SF64  = Sort{KFP, 64}
	SF32  = Sort{KFP, 32}
)

func BV(w int) Sort { return Sort{KBV, w} }

func (s Sort) smt() string {
	switch s.K {
	case KBool:
		return "Bool"
	case KBV:
		return fmt.Sprintf("(_ BitVec %d)", s.W)
	default:
		if s.W == 32 {
			return "(_ FloatingPoint 8 24)"
		}
		return "(_ FloatingPoint 11 53)"
	}
}

type Op uint8

const (
	OConst Op = iota
	OVar
	ONot
	OAnd
	OOr
	OEq // structural equality on Bool / BV
	OIte
	OAdd
	OSub
	OMul
	OUDiv
	OSDiv
	OURem
	OSRem
	OBAnd
	OBOr
	OBXor
	OBNot
	ONeg
	OShl
	OLShr
	OAShr
	OULt
	OULe
	OSLt
	OSLe
	OExtract // P = hi<<8|lo
	OZext    // to width S.W
	OSext
	OConcat
	OFAdd
	OFSub
	OFMul
	OFDiv
	OFNeg
	OFAbs
	OFSqrt
	OFRound // P = rounding mode: 0 RNE 1 RTZ 2 RTN 3 RTP ; roundToIntegral
	OFLt
	OFLe
	OFEq // IEEE ==
	OFIsNaN
	OFIsInf
	OFToFP   // fp -> fp of sort S (RNE)
	OSToFP   // signed bv -> fp (RNE)
	OUToFP   // unsigned bv -> fp (RNE)
	OFToSBV  // fp -> signed bv of width S.W, RTZ (only meaningful in range)
	OFToUBV  // fp -> unsigned bv, RTZ (only meaningful in range)
	OBitsToFP
	OFPToBits // printed through a fresh constant + side assertion
	OFMin     // math.Min/Max semantic is built by Go code; not used
)

type Term struct {
	Op   Op
	S    Sort
	A    [3]*Term
	N    int    // number of args
	C    uint64 // const bits, var id, or op parameter
	ID   int32
	Name string // vars only

	lo, hi   int64 // signed interval for BV terms when known (hasIv)
	hasIv    bool
	evEpoch  uint32
	evVal    uint64
	printed  uint32 // solver-session epoch in which it was defined
	printed2 uint32
}

// TermCtx creates terms for one path.
type TermCtx struct {
	next  int32
	vars  []*Term
	nodes int
}

func (c *TermCtx) mk(op Op, s Sort, p uint64, args ...*Term) *Term {
	c.next++
	c.nodes++
	t := &Term{Op: op, S: s, C: p, ID: c.next, N: len(args)}
	copy(t.A[:], args)
	return t
}

func mask(w int) uint64 {
	if w >= 64 {
		return ^uint64(0)
	}
	return (uint64(1) << uint(w)) - 1
}

func sext(v uint64, w int) int64 {
	if w >= 64 {
		return int64(v)
	}
	sh := uint(64 - w)
	return int64(v<<sh) >> sh
}

// ---- constructors ----

var (
	tTrue  = &Term{Op: OConst, S: SBool, C: 1}
	tFalse = &Term{Op: OConst, S: SBool, C: 0}
)

func Bool(b bool) *Term {
	if b {
		return tTrue
	}
	return tFalse
}

func Const(s Sort, bitsv uint64) *Term {
	if s.K == KBool {
		return Bool(bitsv&1 != 0)
	}
	return &Term{Op: OConst, S: s, C: bitsv & mask(s.W)}
}

func ConstInt(w int, v int64) *Term { return Const(BV(w), uint64(v)) }
func ConstF64(f float64) *Term      { return &Term{Op: OConst, S: SF64, C: math.Float64bits(f)} }
func ConstF32(f float32) *Term      { return &Term{Op: OConst, S: SF32, C: uint64(math.Float32bits(f))} }

func (t *Term) IsConst() bool { return t.Op == OConst }
func (t *Term) IsTrue() bool  { return t.Op == OConst && t.S.K == KBool && t.C == 1 }
func (t *Term) IsFalse() bool { return t.Op == OConst && t.S.K == KBool && t.C == 0 }
func (t *Term) Int() int64    { return sext(t.C, t.S.W) }
func (t *Term) Uint() uint64  { return t.C }
func (t *Term) F64() float64 {
	if t.S.W == 32 {
		return float64(math.Float32frombits(uint32(t.C)))
	}
	return math.Float64frombits(t.C)
}

func (c *TermCtx) Var(s Sort, name string) *Term {
	t := c.mk(OVar, s, uint64(len(c.vars)))
	t.Name = name
	c.vars = append(c.vars, t)
	return t
}

func allConst(args ...*Term) bool {
	for _, a := range args {
		if a.Op != OConst {
			return false
		}
	}
	return true
}

// apply builds op(args) with constant folding and light simplification.
func (c *TermCtx) apply(op Op, s Sort, p uint64, args ...*Term) *Term {
	if allConst(args...) && op != OFPToBits {
		var vals [3]uint64
		for i, a := range args {
			vals[i] = a.C
		}
		return Const(s, evalOp(op, s, p, args, vals[:len(args)]))
	}
	if op == OFPToBits && args[0].Op == OConst {
		return Const(s, args[0].C)
	}
	// simplifications
	switch op {
	case ONot:
		if args[0].Op == ONot {
			return args[0].A[0]
		}
	case OAnd:
		a, b := args[0], args[1]
		if a.IsTrue() {
			return b
		}
		if b.IsTrue() {
			return a
		}
		if a.IsFalse() || b.IsFalse() {
			return tFalse
		}
		if a == b {
			return a
		}
	case OOr:
		a, b := args[0], args[1]
		if a.IsFalse() {
			return b
		}
		if b.IsFalse() {
			return a
		}
		if a.IsTrue() || b.IsTrue() {
			return tTrue
		}
		if a == b {
			return a
		}
	case OEq:
		a, b := args[0], args[1]
		if a == b {
			return tTrue
		}
		if a.S.K == KBool {
			if b.IsTrue() {
				return a
			}
			if a.IsTrue() {
				return b
			}
			if b.IsFalse() {
				return c.Not(a)
			}
			if a.IsFalse() {
				return c.Not(b)
			}
		}
		// eq(ite(c, k1, k2), k) with constants
		if b.Op == OConst && a.Op == OIte && a.A[1].Op == OConst && a.A[2].Op == OConst {
			t1 := a.A[1].C == b.C
			t2 := a.A[2].C == b.C
			switch {
			case t1 && t2:
				return tTrue
			case t1:
				return a.A[0]
			case t2:
				return c.Not(a.A[0])
			default:
				return tFalse
			}
		}
		if a.Op == OConst && b.Op == OIte {
			return c.apply(OEq, s, p, b, a)
		}
		// eq(zext(x), const)
		if b.Op == OConst && a.Op == OZext {
			x := a.A[0]
			if b.C&^mask(x.S.W) != 0 {
				return tFalse
			}
			return c.apply(OEq, s, p, x, Const(x.S, b.C))
		}
		if a.hasIv && b.Op == OConst {
			v := b.Int()
			if v < a.lo || v > a.hi {
				return tFalse
			}
		}
	case OIte:
		cond, a, b := args[0], args[1], args[2]
		if cond.IsTrue() {
			return a
		}
		if cond.IsFalse() {
			return b
		}
		if a == b {
			return a
		}
		if a.Op == OConst && b.Op == OConst && a.C == b.C {
			return a
		}
		if s.K == KBool {
			if a.IsTrue() && b.IsFalse() {
				return cond
			}
			if a.IsFalse() && b.IsTrue() {
				return c.Not(cond)
			}
		}
	case OAdd, OBOr, OBXor:
		if args[0].Op == OConst && args[0].C == 0 {
			return args[1]
		}
		if args[1].Op == OConst && args[1].C == 0 {
			return args[0]
		}
	case OSub, OShl, OLShr, OAShr:
		if args[1].Op == OConst && args[1].C == 0 {
			return args[0]
		}
	case OMul:
		for i := 0; i < 2; i++ {
			if args[i].Op == OConst {
				if args[i].C == 0 {
					return args[i]
				}
				if args[i].C == 1 {
					return args[1-i]
				}
			}
		}
	case OBAnd:
		for i := 0; i < 2; i++ {
			if args[i].Op == OConst {
				if args[i].C == 0 {
					return args[i]
				}
				if args[i].C == mask(s.W) {
					return args[1-i]
				}
			}
		}
	case OZext, OSext:
		if args[0].S.W == s.W {
			return args[0]
		}
	case OExtract:
		hi, lo := int(p>>8), int(p&0xff)
		if lo == 0 && hi == args[0].S.W-1 {
			return args[0]
		}
		// extract low bits of zext/sext back to the original
		if (args[0].Op == OZext || args[0].Op == OSext) && lo == 0 {
			x := args[0].A[0]
			if hi == x.S.W-1 {
				return x
			}
			if hi < x.S.W-1 {
				return c.apply(OExtract, s, p, x)
			}
		}
		if args[0].Op == OConcat && lo == 0 && hi == args[0].A[1].S.W-1 {
			return args[0].A[1]
		}
	case OULt, OSLt:
		if args[0] == args[1] {
			return tFalse
		}
	case OULe, OSLe:
		if args[0] == args[1] {
			return tTrue
		}
	case OBitsToFP:
		if args[0].Op == OFPToBits {
			// not an identity for NaN payloads in SMT, but in Go it is
			return args[0].A[0]
		}
	case OFPToBits:
		if args[0].Op == OBitsToFP {
			return args[0].A[0]
		}
	}
	// interval-based folding of comparisons
	if s.K == KBool && len(args) == 2 && args[0].S.K == KBV {
		if r, ok := ivCompare(op, args[0], args[1]); ok {
			return Bool(r)
		}
	}
	t := c.mk(op, s, p, args...)
	c.setInterval(t)
	return t
}

// ---- intervals (signed view, only tracked when cheap) ----

func (t *Term) iv() (int64, int64, bool) {
	if t.Op == OConst && t.S.K == KBV {
		v := t.Int()
		return v, v, true
	}
	if t.hasIv {
		return t.lo, t.hi, true
	}
	return 0, 0, false
}

func (t *Term) uiv() (uint64, uint64, bool) {
	// unsigned interval derived from signed one when non-negative
	lo, hi, ok := t.iv()
	if ok && lo >= 0 {
		return uint64(lo), uint64(hi), true
	}
	if t.Op == OConst && t.S.K == KBV {
		return t.C, t.C, true
	}
	return 0, 0, false
}

func ivCompare(op Op, a, b *Term) (bool, bool) {
	switch op {
	case OSLt, OSLe:
		alo, ahi, ok1 := a.iv()
		blo, bhi, ok2 := b.iv()
		if !ok1 || !ok2 {
			return false, false
		}
		if op == OSLt {
			if ahi < blo {
				return true, true
			}
			if alo >= bhi {
				return false, true
			}
		} else {
			if ahi <= blo {
				return true, true
			}
			if alo > bhi {
				return false, true
			}
		}
	case OULt, OULe:
		alo, ahi, ok1 := a.uiv()
		blo, bhi, ok2 := b.uiv()
		if !ok1 || !ok2 {
			return false, false
		}
		if op == OULt {
			if ahi < blo {
				return true, true
			}
			if alo >= bhi {
				return false, true
			}
		} else {
			if ahi <= blo {
				return true, true
			}
			if alo > bhi {
				return false, true
			}
		}
	}
	return false, false
}

func (c *TermCtx) setInterval(t *Term) {
	if t.S.K != KBV {
		return
	}
	w := t.S.W
	smax := int64(mask(w) >> 1)
	smin := -smax - 1
	set := func(lo, hi int64) {
		if lo >= smin && hi <= smax && lo <= hi {
			t.lo, t.hi, t.hasIv = lo, hi, true
		}
	}
	switch t.Op {
	case OZext:
		x := t.A[0]
		if x.S.W < w {
			if lo, hi, ok := x.uiv(); ok && hi <= uint64(math.MaxInt64) {
				set(int64(lo), int64(hi))
			} else if x.S.W < 63 {
				set(0, int64(mask(x.S.W)))
			}
		}
	case OSext:
		x := t.A[0]
		if lo, hi, ok := x.iv(); ok {
			set(lo, hi)
		} else if x.S.W < 64 {
			m := int64(mask(x.S.W) >> 1)
			set(-m-1, m)
		}
	case OBAnd:
		for i := 0; i < 2; i++ {
			if t.A[i].Op == OConst && t.A[i].Int() >= 0 {
				set(0, t.A[i].Int())
				return
			}
		}
	case OAdd, OSub:
		alo, ahi, ok1 := t.A[0].iv()
		blo, bhi, ok2 := t.A[1].iv()
		if ok1 && ok2 {
			const lim = int64(1) << 61
			if alo > -lim && ahi < lim && blo > -lim && bhi < lim {
				if t.Op == OAdd {
					set(alo+blo, ahi+bhi)
				} else {
					set(alo-bhi, ahi-blo)
				}
			}
		}
	case OIte:
		alo, ahi, ok1 := t.A[1].iv()
		blo, bhi, ok2 := t.A[2].iv()
		if ok1 && ok2 {
			set(min(alo, blo), max(ahi, bhi))
		}
	case OLShr:
		if t.A[1].Op == OConst {
			sh := t.A[1].C
			if sh > 0 && sh < uint64(w) {
				set(0, int64(mask(w)>>sh))
			}
		}
	case OURem:
		if t.A[1].Op == OConst && t.A[1].Int() > 0 {
			set(0, t.A[1].Int()-1)
		}
	case OMul:
		alo, ahi, ok1 := t.A[0].iv()
		blo, bhi, ok2 := t.A[1].iv()
		if ok1 && ok2 {
			const lim = int64(1) << 30
			if alo > -lim && ahi < lim && blo > -lim && bhi < lim {
				p := []int64{alo * blo, alo * bhi, ahi * blo, ahi * bhi}
				set(min(p[0], p[1], p[2], p[3]), max(p[0], p[1], p[2], p[3]))
			}
		}
	case OExtract:
		lo := int(t.C & 0xff)
		if lo == 0 {
			if l, h, ok := t.A[0].iv(); ok && l >= smin && h <= smax {
				set(l, h)
			}
		}
	}
}

// ---- convenience constructors ----

func (c *TermCtx) Not(a *Term) *Term    { return c.apply(ONot, SBool, 0, a) }
func (c *TermCtx) And(a, b *Term) *Term { return c.apply(OAnd, SBool, 0, a, b) }
func (c *TermCtx) Or(a, b *Term) *Term  { return c.apply(OOr, SBool, 0, a, b) }
func (c *TermCtx) Eq(a, b *Term) *Term {
	if a.S != b.S {
		panic(fmt.Sprintf("Eq sort mismatch %v %v", a.S, b.S))
	}
	if a.S.K == KFP {
		panic("structural Eq on FP")
	}
	return c.apply(OEq, SBool, 0, a, b)
}
func (c *TermCtx) Ite(cond, a, b *Term) *Term {
	if a.S != b.S {
		panic(fmt.Sprintf("Ite sort mismatch %v %v", a.S, b.S))
	}
	return c.apply(OIte, a.S, 0, cond, a, b)
}
func (c *TermCtx) Bin(op Op, a, b *Term) *Term {
	if a.S != b.S {
		panic(fmt.Sprintf("Bin sort mismatch op=%d %v %v", op, a.S, b.S))
	}
	s := a.S
	switch op {
	case OULt, OULe, OSLt, OSLe, OFLt, OFLe, OFEq:
		s = SBool
	}
	return c.apply(op, s, 0, a, b)
}
func (c *TermCtx) Un(op Op, a *Term) *Term {
	s := a.S
	switch op {
	case OFIsNaN, OFIsInf:
		s = SBool
	}
	return c.apply(op, s, 0, a)
}
func (c *TermCtx) Extract(a *Term, hi, lo int) *Term {
	return c.apply(OExtract, BV(hi-lo+1), uint64(hi<<8|lo), a)
}
func (c *TermCtx) Zext(a *Term, w int) *Term {
	if a.S.W > w {
		return c.Extract(a, w-1, 0)
	}
	return c.apply(OZext, BV(w), 0, a)
}
func (c *TermCtx) Sext(a *Term, w int) *Term {
	if a.S.W > w {
		return c.Extract(a, w-1, 0)
	}
	return c.apply(OSext, BV(w), 0, a)
}
func (c *TermCtx) Concat(a, b *Term) *Term {
	return c.apply(OConcat, BV(a.S.W+b.S.W), 0, a, b)
}
func (c *TermCtx) FRound(a *Term, mode int) *Term { return c.apply(OFRound, a.S, uint64(mode), a) }
func (c *TermCtx) BoolToBV(b *Term, w int) *Term {
	return c.Ite(b, Const(BV(w), 1), Const(BV(w), 0))
}

// ---- evaluation ----

func f64of(s Sort, b uint64) float64 {
	if s.W == 32 {
		return float64(math.Float32frombits(uint32(b)))
	}
	return math.Float64frombits(b)
}

func bitsOfF(s Sort, f float64) uint64 {
	if s.W == 32 {
		return uint64(math.Float32bits(float32(f)))
	}
	return math.Float64bits(f)
}

func b2u(b bool) uint64 {
	if b {
		return 1
	}
	return 0
}

// evalOp computes op on constant argument bit patterns (SMT-LIB semantics,
// which are made to coincide with Go's by the way the engine uses them).
func evalOp(op Op, s Sort, p uint64, args []*Term, v []uint64) uint64 {
	var aw int
	if len(args) > 0 {
		aw = args[0].S.W
	}
	m := mask(s.W)
	switch op {
	case ONot:
		return v[0] ^ 1
	case OAnd:
		return v[0] & v[1]
	case OOr:
		return v[0] | v[1]
	case OEq:
		return b2u(v[0] == v[1])
	case OIte:
		if v[0] != 0 {
			return v[1]
		}
		return v[2]
	case OAdd:
		return (v[0] + v[1]) & m
	case OSub:
		return (v[0] - v[1]) & m
	case OMul:
		return (v[0] * v[1]) & m
	case OUDiv:
		if v[1] == 0 {
			return m
		}
		return v[0] / v[1]
	case OURem:
		if v[1] == 0 {
			return v[0]
		}
		return v[0] % v[1]
	case OSDiv:
		a, b := sext(v[0], aw), sext(v[1], aw)
		if b == 0 {
			if a >= 0 {
				return m
			}
			return 1
		}
		if b == -1 {
			return uint64(-a) & m
		}
		return uint64(a/b) & m
	case OSRem:
		a, b := sext(v[0], aw), sext(v[1], aw)
		if b == 0 {
			return v[0]
		}
		if b == -1 {
			return 0
		}
		return uint64(a%b) & m
	case OBAnd:
		return v[0] & v[1]
	case OBOr:
		return v[0] | v[1]
	case OBXor:
		return v[0] ^ v[1]
	case OBNot:
		return ^v[0] & m
	case ONeg:
		return (-v[0]) & m
	case OShl:
		if v[1] >= uint64(aw) {
			return 0
		}
		return (v[0] << v[1]) & m
	case OLShr:
		if v[1] >= uint64(aw) {
			return 0
		}
		return v[0] >> v[1]
	case OAShr:
		a := sext(v[0], aw)
		sh := v[1]
		if sh >= uint64(aw) {
			sh = 63
		}
		return uint64(a>>sh) & m
	case OULt:
		return b2u(v[0] < v[1])
	case OULe:
		return b2u(v[0] <= v[1])
	case OSLt:
		return b2u(sext(v[0], aw) < sext(v[1], aw))
	case OSLe:
		return b2u(sext(v[0], aw) <= sext(v[1], aw))
	case OExtract:
		lo := uint(p & 0xff)
		return (v[0] >> lo) & m
	case OZext:
		return v[0]
	case OSext:
		return uint64(sext(v[0], aw)) & m
	case OConcat:
		return (v[0]<<uint(args[1].S.W) | v[1]) & m
	case OFAdd, OFSub, OFMul, OFDiv:
		if s.W == 32 {
			a, b := math.Float32frombits(uint32(v[0])), math.Float32frombits(uint32(v[1]))
			var r float32
			switch op {
			case OFAdd:
				r = a + b
			case OFSub:
				r = a - b
			case OFMul:
				r = a * b
			default:
				r = a / b
			}
			return uint64(math.Float32bits(r))
		}
		a, b := math.Float64frombits(v[0]), math.Float64frombits(v[1])
		var r float64
		switch op {
		case OFAdd:
			r = a + b
		case OFSub:
			r = a - b
		case OFMul:
			r = a * b
		default:
			r = a / b
		}
		return math.Float64bits(r)
	case OFNeg:
		return v[0] ^ (uint64(1) << uint(s.W-1))
	case OFAbs:
		return v[0] &^ (uint64(1) << uint(s.W-1))
	case OFSqrt:
		if s.W == 32 {
			return uint64(math.Float32bits(float32(math.Sqrt(float64(math.Float32frombits(uint32(v[0])))))))
		}
		return math.Float64bits(math.Sqrt(math.Float64frombits(v[0])))
	case OFRound:
		f := f64of(s, v[0])
		var r float64
		switch p {
		case 0:
			r = math.RoundToEven(f)
		case 1:
			r = math.Trunc(f)
		case 2:
			r = math.Floor(f)
		default:
			r = math.Ceil(f)
		}
		return bitsOfF(s, r)
	case OFLt:
		return b2u(f64of(args[0].S, v[0]) < f64of(args[0].S, v[1]))
	case OFLe:
		return b2u(f64of(args[0].S, v[0]) <= f64of(args[0].S, v[1]))
	case OFEq:
		return b2u(f64of(args[0].S, v[0]) == f64of(args[0].S, v[1]))
	case OFIsNaN:
		f := f64of(args[0].S, v[0])
		return b2u(f != f)
	case OFIsInf:
		return b2u(math.IsInf(f64of(args[0].S, v[0]), 0))
	case OFToFP:
		return bitsOfF(s, f64of(args[0].S, v[0]))
	case OSToFP:
		a := sext(v[0], aw)
		if s.W == 32 {
			return uint64(math.Float32bits(float32(a)))
		}
		return math.Float64bits(float64(a))
	case OUToFP:
		if s.W == 32 {
			return uint64(math.Float32bits(float32(v[0])))
		}
		return math.Float64bits(float64(v[0]))
	case OFToSBV:
		f := math.Trunc(f64of(args[0].S, v[0]))
		if f != f || f >= 9.3e18 || f <= -9.3e18 {
			return 0
		}
		return uint64(int64(f)) & m
	case OFToUBV:
		f := math.Trunc(f64of(args[0].S, v[0]))
		if f != f || f >= 1.85e19 || f < 0 {
			return 0
		}
		if f >= 9223372036854775808.0 {
			return (uint64(int64(f-9223372036854775808.0)) ^ (1 << 63)) & m
		}
		return uint64(int64(f)) & m
	case OBitsToFP, OFPToBits:
		return v[0]
	}
	panic(fmt.Sprintf("evalOp: unhandled op %d", op))
}

// Model maps variable index -> bits.
type Model []uint64

var evalEpoch uint32

type Evaluator struct {
	m     Model
	epoch uint32
}

func NewEvaluator(m Model, epoch uint32) *Evaluator {
	return &Evaluator{m: m, epoch: epoch}
}

func (e *Evaluator) Eval(t *Term) uint64 {
	switch t.Op {
	case OConst:
		return t.C
	case OVar:
		if int(t.C) < len(e.m) {
			return e.m[t.C] & mask(t.S.W)
		}
		return 0
	}
	if t.evEpoch == e.epoch {
		return t.evVal
	}
	var r uint64
	if t.Op == OIte {
		if e.Eval(t.A[0]) != 0 {
			r = e.Eval(t.A[1])
		} else {
			r = e.Eval(t.A[2])
		}
	} else {
		var vals [3]uint64
		for i := 0; i < t.N; i++ {
			vals[i] = e.Eval(t.A[i])
		}
		r = evalOp(t.Op, t.S, t.C, t.A[:t.N], vals[:t.N])
	}
	t.evEpoch = e.epoch
	t.evVal = r
	return r
}

// ---- SMT-LIB printing ----

func constSMT(t *Term) string {
	switch t.S.K {
	case KBool:
		if t.C != 0 {
			return "true"
		}
		return "false"
	case KBV:
		if t.S.W%4 == 0 {
			return fmt.Sprintf("#x%0*x", t.S.W/4, t.C)
		}
		return fmt.Sprintf("#b%0*b", t.S.W, t.C)
	default:
		if t.S.W == 32 {
			return fmt.Sprintf("((_ to_fp 8 24) #x%08x)", t.C)
		}
		return fmt.Sprintf("((_ to_fp 11 53) #x%016x)", t.C)
	}
}

var rmNames = []string{"RNE", "RTZ", "RTN", "RTP"}

var opNames = map[Op]string{
	ONot: "not", OAnd: "and", OOr: "or", OEq: "=", OIte: "ite",
	OAdd: "bvadd", OSub: "bvsub", OMul: "bvmul", OUDiv: "bvudiv", OSDiv: "bvsdiv",
	OURem: "bvurem", OSRem: "bvsrem", OBAnd: "bvand", OBOr: "bvor", OBXor: "bvxor",
	OBNot: "bvnot", ONeg: "bvneg", OShl: "bvshl", OLShr: "bvlshr", OAShr: "bvashr",
	OULt: "bvult", OULe: "bvule", OSLt: "bvslt", OSLe: "bvsle", OConcat: "concat",
	OFNeg: "fp.neg", OFAbs: "fp.abs", OFLt: "fp.lt", OFLe: "fp.leq", OFEq: "fp.eq",
	OFIsNaN: "fp.isNaN", OFIsInf: "fp.isInfinite",
}

// Printer defines terms in a solver session via define-fun.
type Printer struct {
	epoch uint32
	sb    strings.Builder
	slot  int // which printed-field to use (0/1) so two sessions can coexist
}

func (p *Printer) isPrinted(t *Term) bool {
	if p.slot == 0 {
		return t.printed == p.epoch
	}
	return t.printed2 == p.epoch
}
func (p *Printer) setPrinted(t *Term) {
	if p.slot == 0 {
		t.printed = p.epoch
	} else {
		t.printed2 = p.epoch
	}
}

func tname(t *Term) string {
	if t.Op == OVar {
		return fmt.Sprintf("v%d", t.C)
	}
	return fmt.Sprintf("t%d", t.ID)
}

// Ref returns the SMT name for t, emitting definitions as needed into p.sb.
func (p *Printer) Ref(t *Term) string {
	if t.Op == OConst {
		return constSMT(t)
	}
	if p.isPrinted(t) {
		return tname(t)
	}
	// iterative post-order to avoid deep recursion
	type fr struct {
		t *Term
		i int
	}
	stack := []fr{{t, 0}}
	for len(stack) > 0 {
		top := &stack[len(stack)-1]
		tt := top.t
		if tt.Op == OConst || p.isPrinted(tt) {
			stack = stack[:len(stack)-1]
			continue
		}
		if top.i < tt.N {
			ch := tt.A[top.i]
			top.i++
			if ch.Op != OConst && !p.isPrinted(ch) {
				stack = append(stack, fr{ch, 0})
			}
			continue
		}
		p.emit(tt)
		p.setPrinted(tt)
		stack = stack[:len(stack)-1]
	}
	return tname(t)
}

func (p *Printer) arg(t *Term) string {
	if t.Op == OConst {
		return constSMT(t)
	}
	return tname(t)
}

func (p *Printer) emit(t *Term) {
	sb := &p.sb
	if t.Op == OVar {
		fmt.Fprintf(sb, "(declare-const %s %s)\n", tname(t), t.S.smt())
		return
	}
	if t.Op == OFPToBits {
		// fresh constant constrained to denote the same float
		fmt.Fprintf(sb, "(declare-const %s %s)\n", tname(t), t.S.smt())
		fmt.Fprintf(sb, "(assert (= (%s %s) %s))\n", toFPHead(t.A[0].S), tname(t), p.arg(t.A[0]))
		return
	}
	var body string
	a := func(i int) string { return p.arg(t.A[i]) }
	switch t.Op {
	case OExtract:
		body = fmt.Sprintf("((_ extract %d %d) %s)", t.C>>8, t.C&0xff, a(0))
	case OZext:
		body = fmt.Sprintf("((_ zero_extend %d) %s)", t.S.W-t.A[0].S.W, a(0))
	case OSext:
		body = fmt.Sprintf("((_ sign_extend %d) %s)", t.S.W-t.A[0].S.W, a(0))
	case OFAdd, OFSub, OFMul, OFDiv:
		n := map[Op]string{OFAdd: "fp.add", OFSub: "fp.sub", OFMul: "fp.mul", OFDiv: "fp.div"}[t.Op]
		body = fmt.Sprintf("(%s RNE %s %s)", n, a(0), a(1))
	case OFSqrt:
		body = fmt.Sprintf("(fp.sqrt RNE %s)", a(0))
	case OFRound:
		body = fmt.Sprintf("(fp.roundToIntegral %s %s)", rmNames[t.C], a(0))
	case OFToFP:
		body = fmt.Sprintf("(%s RNE %s)", toFPHead(t.S), a(0))
	case OSToFP:
		body = fmt.Sprintf("(%s RNE %s)", toFPHead(t.S), a(0))
	case OUToFP:
		body = fmt.Sprintf("(%s RNE %s)", strings.Replace(toFPHead(t.S), "to_fp", "to_fp_unsigned", 1), a(0))
	case OFToSBV:
		body = fmt.Sprintf("((_ fp.to_sbv %d) RTZ %s)", t.S.W, a(0))
	case OFToUBV:
		body = fmt.Sprintf("((_ fp.to_ubv %d) RTZ %s)", t.S.W, a(0))
	case OBitsToFP:
		body = fmt.Sprintf("(%s %s)", toFPHead(t.S), a(0))
	default:
		n, ok := opNames[t.Op]
		if !ok {
			panic(fmt.Sprintf("emit: op %d", t.Op))
		}
		var parts []string
		for i := 0; i < t.N; i++ {
			parts = append(parts, a(i))
		}
		body = "(" + n + " " + strings.Join(parts, " ") + ")"
	}
	fmt.Fprintf(sb, "(define-fun %s () %s %s)\n", tname(t), t.S.smt(), body)
}

func toFPHead(s Sort) string {
	if s.W == 32 {
		return "(_ to_fp 8 24)"
	}
	return "(_ to_fp 11 53)"
}

var _ = bits.Len
