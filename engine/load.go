package main

// Loading /repo (as it is on disk now) plus the harness overlay, SSA build,
// global variables and lazy package initialisation.

import (
	"fmt"
	"go/types"
	"os"
	"path/filepath"
	"sort"
	"strings"
	"unicode"

	"golang.org/x/tools/go/packages"
	"golang.org/x/tools/go/ssa"
	"golang.org/x/tools/go/ssa/ssautil"
)

const modPath = "github.com/robertkrimen/otto"

type loaded struct {
	prog               *ssa.Program
	pkgs               map[string]*ssa.Package // by import path
	rtErrType          types.Type
	decodeRuneInString *ssa.Function
	harnesses          map[string]*ssa.Function
	overlayFiles       map[string]string // virtual path -> real path
}

// harness dir layout: <harnessDir>/<sub>/*.go where sub is "otto" for the root
// package and the sub-package name otherwise.
func buildOverlay(repo, harnessDir string) (map[string][]byte, map[string]string, error) {
	ov := map[string][]byte{}
	real := map[string]string{}
	subs, err := os.ReadDir(harnessDir)
	if err != nil {
		return nil, nil, err
	}
	for _, sd := range subs {
		if !sd.IsDir() {
			continue
		}
		files, _ := filepath.Glob(filepath.Join(harnessDir, sd.Name(), "*.go"))
		for _, f := range files {
			data, err := os.ReadFile(f)
			if err != nil {
				return nil, nil, err
			}
			dir := repo
			if sd.Name() != "otto" {
				dir = filepath.Join(repo, sd.Name())
			}
			v := filepath.Join(dir, "zz_verif_"+filepath.Base(f))
			ov[v] = data
			real[v] = f
		}
	}
	return ov, real, nil
}

func loadProgram(repo, harnessDir string) (*loaded, error) {
	ov, real, err := buildOverlay(repo, harnessDir)
	if err != nil {
		return nil, err
	}
	cfg := &packages.Config{
		Mode: packages.NeedName | packages.NeedFiles | packages.NeedCompiledGoFiles | packages.NeedImports |
			packages.NeedDeps | packages.NeedTypes | packages.NeedSyntax | packages.NeedTypesInfo | packages.NeedTypesSizes | packages.NeedModule,
		Dir:        repo,
		BuildFlags: []string{"-tags=verif"},
		Overlay:    ov,
		Env:        append(os.Environ(), "GOFLAGS=-mod=mod", "GOPROXY=off", "GOSUMDB=off", "GOTOOLCHAIN=local"),
	}
	pkgs, err := packages.Load(cfg, ".", "./parser", "./ast", "./file", "./token")
	if err != nil {
		return nil, err
	}
	nerr := 0
	packages.Visit(pkgs, nil, func(p *packages.Package) {
		for _, e := range p.Errors {
			if strings.HasPrefix(p.PkgPath, modPath) {
				fmt.Fprintf(os.Stderr, "load error: %s: %v\n", p.PkgPath, e)
				nerr++
			}
		}
	})
	if nerr > 0 {
		return nil, fmt.Errorf("%d errors loading harness+repo (harness no longer compiles against this tree?)", nerr)
	}
	prog, _ := ssautil.AllPackages(pkgs, ssa.InstantiateGenerics)
	prog.Build()
	lp := &loaded{prog: prog, pkgs: map[string]*ssa.Package{}, harnesses: map[string]*ssa.Function{}, overlayFiles: real}
	for _, sp := range prog.AllPackages() {
		lp.pkgs[sp.Pkg.Path()] = sp
	}
	rt := lp.pkgs["runtime"]
	if rt == nil {
		return nil, fmt.Errorf("runtime package not loaded")
	}
	lp.rtErrType = rt.Type("errorString").Object().Type()
	lp.decodeRuneInString = lp.pkgs["unicode/utf8"].Func("DecodeRuneInString")
	for path, sp := range lp.pkgs {
		if !strings.HasPrefix(path, modPath) {
			continue
		}
		for name, m := range sp.Members {
			if f, ok := m.(*ssa.Function); ok && strings.HasPrefix(name, "VerifH_") {
				lp.harnesses[name] = f
			}
		}
	}
	return lp, nil
}

func (lp *loaded) harnessNames() []string {
	var ns []string
	for n := range lp.harnesses {
		ns = append(ns, n)
	}
	sort.Strings(ns)
	return ns
}

// ---- globals and package init ----

var initWhitelist = map[string]bool{
	"strconv": true, "strings": true, "bytes": true, "errors": true, "time": true, "math": true,
	"math/bits": true, "sort": true, "net/url": true, "encoding/hex": true, "unicode/utf8": true,
	"unicode/utf16": true, "path": true, "slices": true, "cmp": true, "internal/itoa": true,
	"internal/stringslite": true, "internal/bytealg": false, "io": true, "math/rand": false,
}

func initAllowed(path string) bool {
	if strings.HasPrefix(path, modPath) {
		return true
	}
	return initWhitelist[path]
}

func (p *Path) globalAddr(g *ssa.Global) *value {
	if c, ok := p.globals[g]; ok {
		return c
	}
	p.ensureInit(g.Pkg)
	if c, ok := p.globals[g]; ok {
		return c
	}
	var v value
	if nv, ok := nativeGlobal(g); ok {
		v = nv
	} else {
		v = zero(deref(g.Type()))
	}
	c := new(value)
	*c = v
	p.globals[g] = c
	return c
}

func (p *Path) ensureInit(pkg *ssa.Package) {
	if pkg == nil || p.initState[pkg] != 0 {
		return
	}
	if !initAllowed(pkg.Pkg.Path()) {
		p.initState[pkg] = 2
		return
	}
	p.initState[pkg] = 1
	init := pkg.Func("init")
	if init != nil && init.Blocks != nil {
		saveInstr := p.curInstr
		p.initDepth++
		p.callFunction(nil, init, nil, nil)
		p.initDepth--
		p.curInstr = saveInstr
	}
	p.initState[pkg] = 2
}

// nativeGlobal provides host objects for globals of packages whose
// initialisers are not executed (unicode tables).
func nativeGlobal(g *ssa.Global) (value, bool) {
	if g.Pkg == nil {
		return nil, false
	}
	switch g.Pkg.Pkg.Path() {
	case "unicode":
		name := g.Name()
		if t, ok := unicode.Categories[name]; ok {
			return &native{t}, true
		}
		if t, ok := unicode.Scripts[name]; ok {
			return &native{t}, true
		}
		if t, ok := unicode.Properties[name]; ok {
			return &native{t}, true
		}
		alias := map[string]*unicode.RangeTable{
			"Letter": unicode.Letter, "Digit": unicode.Digit, "Space": unicode.White_Space, "Upper": unicode.Upper,
			"Lower": unicode.Lower, "Title": unicode.Title, "Mark": unicode.Mark, "Number": unicode.Number,
			"Punct": unicode.Punct, "Symbol": unicode.Symbol, "Control": unicode.Cc, "Other": unicode.Other,
		}
		if t, ok := alias[name]; ok {
			return &native{t}, true
		}
	}
	return nil, false
}
