package main

import (
	"fmt"
	"go/token"
	"go/types"
	"math/big"

	"golang.org/x/tools/go/ssa"
)

func (p *Path) unop(instr *ssa.UnOp, x value) value {
	switch instr.Op {
	case token.ARROW:
		p.unsupported("channel receive")
	case token.SUB:
		t := x.(*Term)
		if t.S.K == KFP {
			return p.tc.Un(OFNeg, t)
		}
		return p.tc.Un(ONeg, t)
	case token.MUL:
		return p.load(x)
	case token.NOT:
		return p.tc.Not(x.(*Term))
	case token.XOR:
		return p.tc.Un(OBNot, x.(*Term))
	}
	panic(fmt.Sprintf("invalid unary op %s %T", instr.Op, x))
}

// equals returns a Bool term for x == y at static type t.
func (p *Path) equals(t types.Type, x, y value) *Term {
	switch x := x.(type) {
	case *Term:
		yt := y.(*Term)
		if x.S.K == KFP {
			return p.tc.Bin(OFEq, x, yt)
		}
		return p.tc.Eq(x, yt)
	case string:
		if ys, ok := y.(string); ok {
			return Bool(x == ys)
		}
		return p.strEq(x, y)
	case *SymStr:
		return p.strEq(x, y)
	case *value:
		yp, ok := y.(*value)
		if !ok {
			return tFalse // *symRef vs pointer: never the same object identity we can name
		}
		return Bool(x == yp)
	case *symRef:
		p.unsupported("comparison of symbolic-index pointers")
	case *Map:
		return Bool(x == y.(*Map))
	case *chanv:
		return Bool(x == y.(*chanv))
	case *native:
		yn, ok := y.(*native)
		if !ok {
			return tFalse
		}
		if x == nil || yn == nil {
			return Bool(x == yn)
		}
		return Bool(x.v == yn.v)
	case iface:
		yi := y.(iface)
		if x.t == nil || yi.t == nil {
			return Bool(x.t == nil && yi.t == nil)
		}
		if !types.Identical(x.t, yi.t) {
			return tFalse
		}
		if !types.Comparable(x.t) {
			panic(targetPanic{iface{t: p.eng.lp.rtErrType, v: "runtime error: comparing uncomparable type " + x.t.String()}})
		}
		return p.equals(x.t, x.v, yi.v)
	case *rval:
		// reflect.Value compared with ==: identical handle, or both invalid
		yr, ok := y.(*rval)
		if !ok {
			return tFalse // a valid Value is never equal to the zero Value
		}
		return Bool(x == yr || (x.addr != nil && x.addr == yr.addr && types.Identical(x.t, yr.t)))
	case structure:
		if _, isR := y.(*rval); isR {
			return tFalse
		}
		ys := y.(structure)
		st := t.Underlying().(*types.Struct)
		r := tTrue
		for i := range x {
			if st.Field(i).Name() == "_" {
				continue
			}
			r = p.tc.And(r, p.equals(st.Field(i).Type(), x[i], ys[i]))
		}
		return r
	case array:
		ya := y.(array)
		et := t.Underlying().(*types.Array).Elem()
		r := tTrue
		for i := range x {
			r = p.tc.And(r, p.equals(et, x[i], ya[i]))
		}
		return r
	case []value:
		// only comparable with nil
		ys := y.([]value)
		return Bool(x == nil && ys == nil)
	case *ssa.Function:
		switch yf := y.(type) {
		case *ssa.Function:
			return Bool(x == yf)
		default:
			return tFalse
		}
	case *closure:
		if yf, ok := y.(*ssa.Function); ok && yf == nil {
			return tFalse
		}
		return Bool(x == y)
	case *nativeFn:
		if yf, ok := y.(*ssa.Function); ok && yf == nil {
			return tFalse
		}
		return Bool(x == y)
	case nil:
		return Bool(y == nil)
	}
	panic(fmt.Sprintf("equals: %T vs %T", x, y))
}

func (p *Path) strEq(x, y value) *Term {
	if strLen(x) != strLen(y) {
		return tFalse
	}
	xb, yb := strBytes(x), strBytes(y)
	r := tTrue
	for i := range xb {
		r = p.tc.And(r, p.tc.Eq(xb[i], yb[i]))
		if r.IsFalse() {
			return r
		}
	}
	return r
}

// strLess: lexicographic byte order x < y.
func (p *Path) strLess(x, y value) *Term {
	xb, yb := strBytes(x), strBytes(y)
	n := len(xb)
	if len(yb) < n {
		n = len(yb)
	}
	// from the end: result for suffix
	var r *Term
	if len(xb) < len(yb) {
		r = tTrue
	} else {
		r = tFalse
	}
	for i := n - 1; i >= 0; i-- {
		lt := p.tc.Bin(OULt, xb[i], yb[i])
		eq := p.tc.Eq(xb[i], yb[i])
		r = p.tc.Or(lt, p.tc.And(eq, r))
	}
	return r
}

func (p *Path) binop(op token.Token, t types.Type, x, y value) value {
	switch op {
	case token.EQL:
		return p.equals(t, x, y)
	case token.NEQ:
		return p.tc.Not(p.equals(t, x, y))
	}
	// strings
	switch x.(type) {
	case string, *SymStr:
		switch op {
		case token.ADD:
			return strConcat(x, y)
		case token.LSS:
			return p.strLess(x, y)
		case token.GTR:
			return p.strLess(y, x)
		case token.LEQ:
			return p.tc.Not(p.strLess(y, x))
		case token.GEQ:
			return p.tc.Not(p.strLess(x, y))
		}
		panic("bad string binop " + op.String())
	}
	a, ok := x.(*Term)
	if !ok {
		panic(fmt.Sprintf("binop %s on %T", op, x))
	}
	b := y.(*Term)
	tc := &p.tc
	if a.S.K == KFP {
		switch op {
		case token.ADD:
			return tc.Bin(OFAdd, a, b)
		case token.SUB:
			return tc.Bin(OFSub, a, b)
		case token.MUL:
			return tc.Bin(OFMul, a, b)
		case token.QUO:
			return tc.Bin(OFDiv, a, b)
		case token.LSS:
			return tc.Bin(OFLt, a, b)
		case token.LEQ:
			return tc.Bin(OFLe, a, b)
		case token.GTR:
			return tc.Bin(OFLt, b, a)
		case token.GEQ:
			return tc.Bin(OFLe, b, a)
		}
		panic("bad float binop " + op.String())
	}
	if a.S.K == KBool {
		switch op {
		case token.AND, token.LAND:
			return tc.And(a, b)
		case token.OR, token.LOR:
			return tc.Or(a, b)
		}
		panic("bad bool binop " + op.String())
	}
	signed := isSigned(t)
	switch op {
	case token.ADD:
		return tc.Bin(OAdd, a, b)
	case token.SUB:
		return tc.Bin(OSub, a, b)
	case token.MUL:
		return tc.Bin(OMul, a, b)
	case token.QUO, token.REM:
		if !p.branch(tc.Not(tc.Eq(b, Const(b.S, 0)))) {
			p.rtPanic("integer divide by zero")
		}
		if signed {
			if op == token.QUO {
				// interval folding: |a| < |const b| => 0
				if b.Op == OConst {
					if lo, hi, ok := a.iv(); ok {
						bv := b.Int()
						if bv < 0 {
							bv = -bv
						}
						if bv > 0 && lo > -bv && hi < bv {
							return Const(a.S, 0)
						}
					}
				}
				return tc.Bin(OSDiv, a, b)
			}
			if b.Op == OConst {
				if lo, hi, ok := a.iv(); ok {
					bv := b.Int()
					if bv < 0 {
						bv = -bv
					}
					if bv > 0 && lo > -bv && hi < bv {
						return a
					}
				}
			}
			return tc.Bin(OSRem, a, b)
		}
		if op == token.QUO {
			return tc.Bin(OUDiv, a, b)
		}
		return tc.Bin(OURem, a, b)
	case token.AND:
		return tc.Bin(OBAnd, a, b)
	case token.OR:
		return tc.Bin(OBOr, a, b)
	case token.XOR:
		return tc.Bin(OBXor, a, b)
	case token.AND_NOT:
		return tc.Bin(OBAnd, a, tc.Un(OBNot, b))
	case token.SHL, token.SHR:
		// y may have a different width and signedness (SSA keeps its own type)
		return p.shift(op, a, b, signed)
	case token.LSS:
		if signed {
			return tc.Bin(OSLt, a, b)
		}
		return tc.Bin(OULt, a, b)
	case token.LEQ:
		if signed {
			return tc.Bin(OSLe, a, b)
		}
		return tc.Bin(OULe, a, b)
	case token.GTR:
		if signed {
			return tc.Bin(OSLt, b, a)
		}
		return tc.Bin(OULt, b, a)
	case token.GEQ:
		if signed {
			return tc.Bin(OSLe, b, a)
		}
		return tc.Bin(OULe, b, a)
	}
	panic("bad int binop " + op.String())
}

// shift implements Go shift semantics; the caller cannot tell us whether the
// count is signed, so shiftSigned is consulted via the current instruction.
func (p *Path) shift(op token.Token, a, cnt *Term, signedX bool) value {
	tc := &p.tc
	w := a.S.W
	// signedness of the count operand
	cntSigned := false
	if bo, ok := p.curInstr.(*ssa.BinOp); ok {
		cntSigned = isSigned(bo.Y.Type())
	}
	if cntSigned {
		neg := tc.Bin(OSLt, cnt, Const(cnt.S, 0))
		if p.branch(neg) {
			p.rtPanic("negative shift amount")
		}
	}
	// normalise count to width w, saturating at w
	var c *Term
	if cnt.S.W > w {
		big := tc.Bin(OULe, Const(cnt.S, uint64(w)), cnt)
		c = tc.Ite(big, Const(BV(w), uint64(w)), tc.Extract(cnt, w-1, 0))
	} else if cnt.S.W < w {
		c = tc.Zext(cnt, w)
	} else {
		c = cnt
	}
	if op == token.SHL {
		return tc.Bin(OShl, a, c)
	}
	if signedX {
		return tc.Bin(OAShr, a, c)
	}
	return tc.Bin(OLShr, a, c)
}

// ---- conversions ----

func (p *Path) conv(tdst, tsrc types.Type, x value) value {
	ud, us := tdst.Underlying(), tsrc.Underlying()
	tc := &p.tc
	switch ud := ud.(type) {
	case *types.Basic:
		if ud.Info()&types.IsString != 0 {
			// string(x)
			switch us := us.(type) {
			case *types.Basic:
				if us.Info()&types.IsString != 0 {
					return x
				}
				if us.Info()&types.IsInteger != 0 {
					// string(rune)
					t := x.(*Term)
					var r *Term
					if isSigned(tsrc) {
						r = tc.Sext(t, 64)
					} else {
						r = tc.Zext(t, 64)
					}
					// out of int32 range => RuneError
					inRange := tc.And(tc.Bin(OSLe, ConstInt(64, 0), r), tc.Bin(OSLe, r, ConstInt(64, 0x10FFFF)))
					r32 := tc.Ite(inRange, tc.Extract(r, 31, 0), ConstInt(32, 0xFFFD))
					return p.encodeRune(r32)
				}
			case *types.Slice:
				sl := x.([]value)
				eb := us.Elem().Underlying().(*types.Basic)
				if eb.Kind() == types.Uint8 {
					b := make([]*Term, len(sl))
					for i, e := range sl {
						b[i] = e.(*Term)
					}
					return mkStr(b)
				}
				// []rune -> string
				var out value = ""
				for _, e := range sl {
					out = strConcat(out, p.encodeRune(e.(*Term)))
				}
				return out
			}
			panic(fmt.Sprintf("conv to string from %v", tsrc))
		}
		if ud.Kind() == types.UnsafePointer {
			p.unsupported("unsafe.Pointer conversion")
		}
		t, ok := x.(*Term)
		if !ok {
			if _, isPtr := x.(*value); isPtr {
				p.unsupported("pointer to integer conversion")
			}
			panic(fmt.Sprintf("conv %v -> %v of %T", tsrc, tdst, x))
		}
		ds, _ := sortOfBasic(ud)
		switch {
		case ds.K == KBV && t.S.K == KBV:
			if ds.W <= t.S.W {
				return tc.Extract(t, ds.W-1, 0)
			}
			if isSigned(tsrc) {
				return tc.Sext(t, ds.W)
			}
			return tc.Zext(t, ds.W)
		case ds.K == KFP && t.S.K == KBV:
			if isSigned(tsrc) {
				return tc.apply(OSToFP, ds, 0, t)
			}
			return tc.apply(OUToFP, ds, 0, t)
		case ds.K == KFP && t.S.K == KFP:
			if ds.W == t.S.W {
				return t
			}
			return tc.apply(OFToFP, ds, 0, t)
		case ds.K == KBV && t.S.K == KFP:
			return p.floatToInt(t, ds.W, isSigned(tdst))
		case ds.K == KBool && t.S.K == KBool:
			return t
		}
		panic(fmt.Sprintf("conv %v -> %v", tsrc, tdst))
	case *types.Slice:
		// []byte(s), []rune(s)
		if _, ok := us.(*types.Basic); ok {
			eb := ud.Elem().Underlying().(*types.Basic)
			if eb.Kind() == types.Uint8 {
				b := strBytes(x)
				out := make([]value, len(b))
				for i, t := range b {
					out[i] = t
				}
				return out
			}
			// []rune
			var out []value
			pos := 0
			n := strLen(x)
			for pos < n {
				r, size := p.decodeRune(strSlice(x, pos, n))
				out = append(out, r)
				pos += size
			}
			if out == nil {
				out = []value{}
			}
			return out
		}
		return x
	case *types.Pointer, *types.Signature, *types.Struct, *types.Array, *types.Map, *types.Chan, *types.Interface:
		return x
	}
	panic(fmt.Sprintf("conv: %v -> %v", tsrc, tdst))
}

// floatToInt follows the code the gc compiler emits on amd64 (CVTTSD2SQ /
// CVTTSD2SL: "integer indefinite" for NaN and out-of-range inputs).
func (p *Path) floatToInt(f *Term, w int, signed bool) *Term {
	tc := &p.tc
	cvt := func(f *Term, hw int) *Term {
		// hardware conversion to signed hw-bit (32 or 64)
		indef := Const(BV(hw), uint64(1)<<uint(hw-1))
		two := new(big.Float).SetMantExp(big.NewFloat(1), hw-1) // 2^(hw-1)
		hiF, _ := two.Float64()
		hi := p.fconst(f.S, hiF)
		var okLo *Term
		// lower bound: trunc(f) >= -2^(hw-1)  <=>  f > -2^(hw-1) - 1
		lowExact := -hiF - 1
		if f.S.W == 64 && hw == 32 {
			okLo = tc.Bin(OFLt, p.fconst(f.S, lowExact), f)
		} else {
			// -2^(hw-1)-1 is not representable: f >= -2^(hw-1)
			okLo = tc.Bin(OFLe, p.fconst(f.S, -hiF), f)
		}
		ok := tc.And(okLo, tc.Bin(OFLt, f, hi))
		return tc.Ite(ok, tc.apply(OFToSBV, BV(hw), 0, f), indef)
	}
	if signed {
		switch w {
		case 64:
			return cvt(f, 64)
		case 32:
			return cvt(f, 32)
		default:
			return tc.Extract(cvt(f, 32), w-1, 0)
		}
	}
	switch w {
	case 64:
		// if f < 2^63 { uint64(int64(f)) } else { int64(f - 2^63) ^ minInt64 }
		two63 := p.fconst(f.S, 9223372036854775808.0)
		lt := tc.Bin(OFLt, f, two63)
		a := cvt(f, 64)
		b := tc.Bin(OBXor, cvt(tc.Bin(OFSub, f, two63), 64), Const(BV(64), 1<<63))
		return tc.Ite(lt, a, b)
	case 32:
		return tc.Extract(cvt(f, 64), 31, 0)
	default:
		return tc.Extract(cvt(f, 32), w-1, 0)
	}
}

func (p *Path) fconst(s Sort, f float64) *Term {
	if s.W == 32 {
		return ConstF32(float32(f))
	}
	return ConstF64(f)
}

// encodeRune: string(rune) with Go semantics, forking on the encoded length.
func (p *Path) encodeRune(r *Term) value {
	tc := &p.tc
	if r.Op == OConst {
		return string(rune(int32(r.C)))
	}
	r = tc.Zext(r, 32)
	c := func(v uint64) *Term { return Const(BV(32), v) }
	b8 := func(t *Term) *Term { return tc.Extract(t, 7, 0) }
	shr := func(t *Term, n uint64) *Term { return tc.Bin(OLShr, t, c(n)) }
	or := func(a *Term, v uint64) *Term { return tc.Bin(OBOr, a, c(v)) }
	and := func(a *Term, v uint64) *Term { return tc.Bin(OBAnd, a, c(v)) }
	if p.branch(tc.Bin(OULe, r, c(0x7F))) {
		return mkStr([]*Term{b8(r)})
	}
	if p.branch(tc.Bin(OULe, r, c(0x7FF))) {
		return mkStr([]*Term{b8(or(shr(r, 6), 0xC0)), b8(or(and(r, 0x3F), 0x80))})
	}
	// invalid: > 0x10FFFF or surrogates => U+FFFD
	bad := tc.Or(tc.Bin(OULt, c(0x10FFFF), r), tc.And(tc.Bin(OULe, c(0xD800), r), tc.Bin(OULe, r, c(0xDFFF))))
	if p.branch(bad) {
		return "�"
	}
	if p.branch(tc.Bin(OULe, r, c(0xFFFF))) {
		return mkStr([]*Term{b8(or(shr(r, 12), 0xE0)), b8(or(and(shr(r, 6), 0x3F), 0x80)), b8(or(and(r, 0x3F), 0x80))})
	}
	return mkStr([]*Term{b8(or(shr(r, 18), 0xF0)), b8(or(and(shr(r, 12), 0x3F), 0x80)), b8(or(and(shr(r, 6), 0x3F), 0x80)), b8(or(and(r, 0x3F), 0x80))})
}

// decodeRune decodes the first rune of s (len(s) > 0) by executing
// unicode/utf8.DecodeRuneInString from its own SSA.
func (p *Path) decodeRune(s value) (*Term, int) {
	if cs, ok := s.(string); ok {
		for _, r := range cs {
			size := len(string(r))
			if r == 0xFFFD {
				// could be an invalid byte (size 1) or a real U+FFFD (size 3)
				if len(cs) >= 3 && cs[:3] == "�" {
					size = 3
				} else {
					size = 1
				}
			}
			return ConstInt(32, int64(r)), size
		}
	}
	fn := p.eng.lp.decodeRuneInString
	res := p.callFunction(nil, fn, []value{s}, nil).(tuple)
	r := res[0].(*Term)
	size := int(p.asInt(res[1], "rune size"))
	return r, size
}

// ---- range ----

type iter interface {
	next(p *Path) tuple
}

type stringIter struct {
	s   value
	pos int
}

func (it *stringIter) next(p *Path) tuple {
	n := strLen(it.s)
	if it.pos >= n {
		return tuple{tFalse, ConstInt(64, 0), ConstInt(32, 0)}
	}
	r, size := p.decodeRune(strSlice(it.s, it.pos, n))
	idx := it.pos
	it.pos += size
	return tuple{tTrue, ConstInt(64, int64(idx)), r}
}

type mapIter struct {
	m    *Map
	ents []*mapEnt
	i    int
}

func (it *mapIter) next(p *Path) tuple {
	for it.i < len(it.ents) {
		e := it.ents[it.i]
		it.i++
		if e.deleted {
			continue
		}
		return tuple{tTrue, e.key, copyVal(e.val)}
	}
	return tuple{tFalse, nil, nil}
}

func (p *Path) rangeIter(x value, t types.Type) iter {
	switch x := x.(type) {
	case string, *SymStr:
		return &stringIter{s: x}
	case *Map:
		if x == nil {
			return &mapIter{}
		}
		p.mapSettle(x)
		ents := append([]*mapEnt{}, x.order...)
		return &mapIter{m: x, ents: ents}
	}
	panic(fmt.Sprintf("cannot range over %T", x))
}

// ---- maps ----

// mapSettle: symbolic-keyed entries are kept apart; nothing to do for counts
// because an insert of a symbolic key is only stored as a new entry after it
// was decided (by forking) to differ from every existing key.
func (p *Path) mapSettle(m *Map) {}

func (p *Path) mapFind(m *Map, key value) *mapEnt {
	if ck, ok := concreteKey(key); ok {
		// compare with symbolic-keyed entries first
		for _, e := range m.sym {
			if e.deleted {
				continue
			}
			if p.branch(p.keyEq(e.key, key)) {
				return e
			}
		}
		if e, ok := m.ents[ck]; ok && !e.deleted {
			return e
		}
		return nil
	}
	for _, e := range m.order {
		if e.deleted {
			continue
		}
		eq := p.keyEq(e.key, key)
		if eq.IsFalse() {
			continue
		}
		if p.branch(eq) {
			return e
		}
	}
	return nil
}

func (p *Path) keyEq(a, b value) *Term {
	switch a := a.(type) {
	case string, *SymStr:
		return p.strEq(a, b)
	case *Term:
		bt := b.(*Term)
		if a.S.K == KFP {
			return p.tc.Bin(OFEq, a, bt)
		}
		return p.tc.Eq(a, bt)
	case iface:
		bi := b.(iface)
		if a.t == nil || bi.t == nil {
			return Bool(a.t == nil && bi.t == nil)
		}
		if !types.Identical(a.t, bi.t) {
			return tFalse
		}
		return p.equals(a.t, a.v, bi.v)
	}
	ka, ok1 := concreteKey(a)
	kb, ok2 := concreteKey(b)
	if ok1 && ok2 {
		return Bool(ka == kb)
	}
	p.unsupported(fmt.Sprintf("symbolic map key of type %T", a))
	return nil
}

func (p *Path) mapInsert(m *Map, key, val value) {
	if e := p.mapFind(m, key); e != nil {
		e.val = val
		return
	}
	e := &mapEnt{key: key, val: val}
	if ck, ok := concreteKey(key); ok {
		m.ents[ck] = e
	} else {
		m.sym = append(m.sym, e)
	}
	m.order = append(m.order, e)
	m.n++
}

func (p *Path) mapDelete(m *Map, key value) {
	e := p.mapFind(m, key)
	if e == nil {
		return
	}
	e.deleted = true
	m.n--
	if ck, ok := concreteKey(e.key); ok {
		delete(m.ents, ck)
	} else {
		for i, s := range m.sym {
			if s == e {
				m.sym = append(m.sym[:i:i], m.sym[i+1:]...)
				break
			}
		}
	}
	// compact order lazily
	if len(m.order) > 32 && m.n*2 < len(m.order) {
		no := make([]*mapEnt, 0, m.n)
		for _, x := range m.order {
			if !x.deleted {
				no = append(no, x)
			}
		}
		m.order = no
	}
}

func (p *Path) lookup(instr *ssa.Lookup, x, idx value) value {
	switch x := x.(type) {
	case *Map:
		var v value
		ok := false
		if x != nil {
			if e := p.mapFind(x, idx); e != nil {
				v = copyVal(e.val)
				ok = true
			}
		}
		if !ok {
			v = zero(instr.X.Type().Underlying().(*types.Map).Elem())
		}
		if instr.CommaOk {
			return tuple{v, Bool(ok)}
		}
		return v
	case string, *SymStr:
		return p.index(x, idx.(*Term), isSigned(instr.Index.Type()))
	}
	panic(fmt.Sprintf("lookup on %T", x))
}
