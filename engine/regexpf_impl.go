package main

import "regexp"

func regexpFormulaImpl(p *Path, r *regexp.Regexp, s []*Term) (*Term, bool) { return nil, false }
