package main

// regexp-as-formula: for a concrete pattern and a subject of concrete length
// whose bytes are terms, "r.MatchString(s)" is compiled to a Boolean term by
// simulating the compiled regexp/syntax program over positions. Runes are
// bytes: the caller must have established that every byte is ASCII.

import (
	"regexp"
	"regexp/syntax"
	"sync"
)

var progCache sync.Map

func compiledProg(r *regexp.Regexp) *syntax.Prog {
	key := r.String()
	if v, ok := progCache.Load(key); ok {
		return v.(*syntax.Prog)
	}
	re, err := syntax.Parse(key, syntax.Perl)
	if err != nil {
		return nil
	}
	prog, err := syntax.Compile(re.Simplify())
	if err != nil {
		return nil
	}
	progCache.Store(key, prog)
	return prog
}

// asciiOnly forks on "all bytes < 0x80" and reports which side we are on.
func (p *Path) asciiOnly(s []*Term) bool {
	all := tTrue
	for _, b := range s {
		all = p.tc.And(all, p.tc.Bin(OULt, b, Const(BV(8), 0x80)))
	}
	return p.branch(all)
}

func regexpFormulaImpl(p *Path, r *regexp.Regexp, s []*Term) (*Term, bool) {
	prog := compiledProg(r)
	if prog == nil {
		return nil, false
	}
	// If every rune instruction only accepts ASCII, a byte >= 0x80 matches
	// nothing and bytes can stand for runes whatever the subject holds.
	if !asciiSafe(prog) && !p.asciiOnly(s) {
		return nil, false
	}
	return p.matchFormula(prog, s, 0), true
}

func isWordByteTerm(p *Path, b *Term) *Term {
	tc := &p.tc
	c := func(v uint64) *Term { return Const(BV(8), v) }
	in := func(lo, hi uint64) *Term { return tc.And(tc.Bin(OULe, c(lo), b), tc.Bin(OULe, b, c(hi))) }
	return tc.Or(tc.Or(in('a', 'z'), in('A', 'Z')), tc.Or(in('0', '9'), tc.Eq(b, c('_'))))
}

// runeCond: does instruction i accept byte b (as an ASCII rune)?
func runeCond(p *Path, i *syntax.Inst, b *Term) *Term {
	tc := &p.tc
	switch i.Op {
	case syntax.InstRuneAny:
		return tTrue
	case syntax.InstRuneAnyNotNL:
		return tc.Not(tc.Eq(b, Const(BV(8), '\n')))
	}
	fold := syntax.Flags(i.Arg)&syntax.FoldCase != 0
	res := tFalse
	add := func(lo, hi rune) {
		if lo > 0x7F {
			return
		}
		if hi > 0x7F {
			hi = 0x7F
		}
		var t *Term
		if lo == hi {
			t = tc.Eq(b, Const(BV(8), uint64(lo)))
		} else {
			t = tc.And(tc.Bin(OULe, Const(BV(8), uint64(lo)), b), tc.Bin(OULe, b, Const(BV(8), uint64(hi))))
		}
		res = tc.Or(res, t)
	}
	rs := i.Rune
	if len(rs) == 1 {
		add(rs[0], rs[0])
		if fold {
			// simple ASCII case folding
			r := rs[0]
			if 'a' <= r && r <= 'z' {
				add(r-32, r-32)
			} else if 'A' <= r && r <= 'Z' {
				add(r+32, r+32)
			}
		}
		return res
	}
	for k := 0; k+1 < len(rs); k += 2 {
		add(rs[k], rs[k+1])
	}
	return res
}

// matchFormula: unanchored search semantics of MatchString.
func (p *Path) matchFormula(prog *syntax.Prog, s []*Term, _ int) *Term {
	tc := &p.tc
	n := len(s)
	ninst := len(prog.Inst)
	matched := tFalse
	cur := make([]*Term, ninst)
	for i := range cur {
		cur[i] = tFalse
	}
	// emptyCond: condition for an empty-width assertion at position pos
	emptyCond := func(op syntax.EmptyOp, pos int) *Term {
		c := tTrue
		if op&syntax.EmptyBeginText != 0 && pos != 0 {
			return tFalse
		}
		if op&syntax.EmptyEndText != 0 && pos != n {
			return tFalse
		}
		if op&syntax.EmptyBeginLine != 0 && pos != 0 {
			c = tc.And(c, tc.Eq(s[pos-1], Const(BV(8), '\n')))
		}
		if op&syntax.EmptyEndLine != 0 && pos != n {
			c = tc.And(c, tc.Eq(s[pos], Const(BV(8), '\n')))
		}
		if op&(syntax.EmptyWordBoundary|syntax.EmptyNoWordBoundary) != 0 {
			before, after := tFalse, tFalse
			if pos > 0 {
				before = isWordByteTerm(p, s[pos-1])
			}
			if pos < n {
				after = isWordByteTerm(p, s[pos])
			}
			boundary := tc.Not(tc.Eq(before, after))
			if op&syntax.EmptyWordBoundary != 0 {
				c = tc.And(c, boundary)
			}
			if op&syntax.EmptyNoWordBoundary != 0 {
				c = tc.And(c, tc.Not(boundary))
			}
		}
		return c
	}
	// addState: add pc with condition c to set at position pos, following
	// epsilon edges. Conditions only grow by Or, so iterate to a fixpoint with
	// a worklist (the program is small).
	type vk struct {
		pc int
		c  *Term
	}
	var addv func(set []*Term, pc int, c *Term, pos int, visited map[vk]bool)
	addv = func(set []*Term, pc int, c *Term, pos int, visited map[vk]bool) {
		if c.IsFalse() || visited[vk{pc, c}] {
			return
		}
		visited[vk{pc, c}] = true
		set[pc] = tc.Or(set[pc], c)
		in := &prog.Inst[pc]
		switch in.Op {
		case syntax.InstAlt, syntax.InstAltMatch:
			addv(set, int(in.Out), c, pos, visited)
			addv(set, int(in.Arg), c, pos, visited)
		case syntax.InstCapture, syntax.InstNop:
			addv(set, int(in.Out), c, pos, visited)
		case syntax.InstEmptyWidth:
			addv(set, int(in.Out), tc.And(c, emptyCond(syntax.EmptyOp(in.Arg), pos)), pos, visited)
		}
	}
	add := func(set []*Term, pc int, c *Term, pos int, _ int) {
		addv(set, pc, c, pos, map[vk]bool{})
	}
	for pos := 0; pos <= n; pos++ {
		// unanchored: a match attempt may start at every position
		add(cur, prog.Start, tTrue, pos, 0)
		for pc := 0; pc < ninst; pc++ {
			if prog.Inst[pc].Op == syntax.InstMatch {
				matched = tc.Or(matched, cur[pc])
			}
		}
		if pos == n {
			break
		}
		next := make([]*Term, ninst)
		for i := range next {
			next[i] = tFalse
		}
		for pc := 0; pc < ninst; pc++ {
			if cur[pc].IsFalse() {
				continue
			}
			in := &prog.Inst[pc]
			switch in.Op {
			case syntax.InstRune, syntax.InstRune1, syntax.InstRuneAny, syntax.InstRuneAnyNotNL:
				c := tc.And(cur[pc], runeCond(p, in, s[pos]))
				add(next, int(in.Out), c, pos+1, 0)
			}
		}
		cur = next
	}
	return matched
}

// singleRune: is the program "one rune from a class" (optionally captured)?
func singleRune(prog *syntax.Prog) *syntax.Inst {
	pc := prog.Start
	var ri *syntax.Inst
	for steps := 0; steps < 10; steps++ {
		in := &prog.Inst[pc]
		switch in.Op {
		case syntax.InstCapture, syntax.InstNop:
			pc = int(in.Out)
		case syntax.InstRune, syntax.InstRune1, syntax.InstRuneAny, syntax.InstRuneAnyNotNL:
			if ri != nil {
				return nil
			}
			ri = in
			pc = int(in.Out)
		case syntax.InstMatch:
			return ri
		default:
			return nil
		}
	}
	return nil
}

// runeCond32: does instruction i accept the rune r (32-bit term)?
func runeCond32(p *Path, i *syntax.Inst, r *Term) *Term {
	tc := &p.tc
	c := func(v rune) *Term { return Const(BV(32), uint64(uint32(v))) }
	switch i.Op {
	case syntax.InstRuneAny:
		return tTrue
	case syntax.InstRuneAnyNotNL:
		return tc.Not(tc.Eq(r, c('\n')))
	}
	res := tFalse
	rs := i.Rune
	if len(rs) == 1 {
		return tc.Eq(r, c(rs[0]))
	}
	for k := 0; k+1 < len(rs); k += 2 {
		var t *Term
		if rs[k] == rs[k+1] {
			t = tc.Eq(r, c(rs[k]))
		} else {
			t = tc.And(tc.Bin(OULe, c(rs[k]), r), tc.Bin(OULe, r, c(rs[k+1])))
		}
		res = tc.Or(res, t)
	}
	return res
}

// replaceAllFuncSingle implements (*Regexp).ReplaceAllFunc for single-rune
// patterns on symbolic bytes: rune by rune, forking on class membership.
func (p *Path) replaceAllFuncSingle(caller *frame, r *regexp.Regexp, src []value, repl value) (value, bool) {
	prog := compiledProg(r)
	if prog == nil {
		return nil, false
	}
	ri := singleRune(prog)
	if ri == nil {
		return nil, false
	}
	var out []value
	s := mkStr(sliceBytes(src))
	n := strLen(s)
	pos := 0
	for pos < n {
		rn, size := p.decodeRune(strSlice(s, pos, n))
		chunk := src[pos : pos+size]
		if p.branch(runeCond32(p, ri, p.tc.Zext(rn, 32))) {
			cp := make([]value, len(chunk))
			copy(cp, chunk)
			res := p.call(caller, repl, []value{cp}, nil).([]value)
			out = append(out, res...)
		} else {
			out = append(out, chunk...)
		}
		pos += size
	}
	if out == nil {
		out = []value{}
	}
	return out, true
}

func asciiSafe(prog *syntax.Prog) bool {
	for i := range prog.Inst {
		in := &prog.Inst[i]
		switch in.Op {
		case syntax.InstRuneAny, syntax.InstRuneAnyNotNL:
			return false
		case syntax.InstRune, syntax.InstRune1:
			for _, r := range in.Rune {
				if r > 0x7F {
					return false
				}
			}
		case syntax.InstEmptyWidth:
			if syntax.EmptyOp(in.Arg)&(syntax.EmptyWordBoundary|syntax.EmptyNoWordBoundary) != 0 {
				// \b looks at runes on both sides; a non-ASCII rune is a non-word rune, as is a byte >= 0x80 here
			}
		}
	}
	return true
}

// ---- class-split concretisation ----
//
// For a concrete pattern, whether and where it matches depends only on which
// of the pattern's character classes each subject rune belongs to. classSplit
// forks over those classes for every symbolic byte (ASCII only) and returns a
// concrete representative string on which the real regexp package can be run:
// match positions on the representative are the match positions for every
// string of that class combination.

func classCuts(prog *syntax.Prog) []int {
	cut := map[int]bool{0: true, 0x80: true}
	add := func(lo, hi rune) {
		if lo <= 0x7F {
			cut[int(lo)] = true
		}
		if hi < 0x7F {
			cut[int(hi)+1] = true
		}
	}
	word := false
	for i := range prog.Inst {
		in := &prog.Inst[i]
		switch in.Op {
		case syntax.InstRune, syntax.InstRune1:
			rs := in.Rune
			if len(rs) == 1 {
				add(rs[0], rs[0])
				if syntax.Flags(in.Arg)&syntax.FoldCase != 0 {
					r := rs[0]
					if 'a' <= r && r <= 'z' {
						add(r-32, r-32)
					} else if 'A' <= r && r <= 'Z' {
						add(r+32, r+32)
					}
				}
			}
			for k := 0; k+1 < len(rs); k += 2 {
				add(rs[k], rs[k+1])
			}
		case syntax.InstRuneAnyNotNL:
			add('\n', '\n')
		case syntax.InstEmptyWidth:
			op := syntax.EmptyOp(in.Arg)
			if op&(syntax.EmptyWordBoundary|syntax.EmptyNoWordBoundary) != 0 {
				word = true
			}
			if op&(syntax.EmptyBeginLine|syntax.EmptyEndLine) != 0 {
				add('\n', '\n')
			}
		}
	}
	if word {
		add('0', '9')
		add('A', 'Z')
		add('a', 'z')
		add('_', '_')
	}
	var cs []int
	for c := range cut {
		cs = append(cs, c)
	}
	sortInts(cs)
	return cs
}

func sortInts(a []int) {
	for i := 1; i < len(a); i++ {
		for j := i; j > 0 && a[j] < a[j-1]; j-- {
			a[j], a[j-1] = a[j-1], a[j]
		}
	}
}

// classSplit returns a concrete representative of the symbolic subject after
// forking over the pattern's character classes. ok=false: not applicable
// (non-ASCII byte with a pattern that is not ASCII-only).
func (p *Path) classSplit(r *regexp.Regexp, s []*Term) (string, bool) {
	prog := compiledProg(r)
	if prog == nil {
		return "", false
	}
	cuts := classCuts(prog)
	safe := asciiSafe(prog)
	buf := make([]byte, len(s))
	tc := &p.tc
	for i, b := range s {
		if b.Op == OConst {
			buf[i] = byte(b.C)
			continue
		}
		chosen := false
		for k := 0; k < len(cuts); k++ {
			lo := cuts[k]
			hi := 0xFF
			if k+1 < len(cuts) {
				hi = cuts[k+1] - 1
			}
			var c *Term
			if k+1 == len(cuts) {
				c = tTrue
			} else {
				c = tc.Bin(OULe, b, Const(BV(8), uint64(hi)))
			}
			if p.branch(c) {
				if lo >= 0x80 && !safe {
					return "", false
				}
				buf[i] = byte(lo)
				chosen = true
				break
			}
		}
		if !chosen {
			return "", false
		}
	}
	return string(buf), true
}
