package main

// Persistent SMT solver processes speaking SMT-LIB2 over pipes.

import (
	"bufio"
	"fmt"
	"io"
	"os"
	"os/exec"
	"strconv"
	"strings"
	"sync/atomic"
	"time"
)

type SolverKind int

const (
	SolverZ3 SolverKind = iota
	SolverZ3New
	SolverCVC5
	SolverCVC5Int
)

func (k SolverKind) String() string {
	return [...]string{"z3-4.8.12", "z3-5.1.0", "cvc5", "cvc5-bv-as-int"}[k]
}

type SolverStats struct {
	Sat, Unsat, Unknown int64
	Nanos               int64
}

var globalSolverStats [4]SolverStats

type Solver struct {
	kind    SolverKind
	cmd     *exec.Cmd
	in      io.WriteCloser
	out     *bufio.Reader
	timeout time.Duration
	log     io.Writer
	dead    bool
}

func NewSolver(kind SolverKind, timeout time.Duration) (*Solver, error) {
	var cmd *exec.Cmd
	ms := int(timeout / time.Millisecond)
	switch kind {
	case SolverZ3:
		cmd = exec.Command("z3", "-in", fmt.Sprintf("-t:%d", ms))
	case SolverZ3New:
		cmd = exec.Command("z3-new", "-in", fmt.Sprintf("-t:%d", ms))
	case SolverCVC5:
		cmd = exec.Command("cvc5", "--incremental", "--lang=smt2", "--produce-models", fmt.Sprintf("--tlimit-per=%d", ms))
	case SolverCVC5Int:
		cmd = exec.Command("cvc5", "--incremental", "--lang=smt2", "--produce-models", "--solve-bv-as-int=sum", fmt.Sprintf("--tlimit-per=%d", ms))
	}
	in, err := cmd.StdinPipe()
	if err != nil {
		return nil, err
	}
	out, err := cmd.StdoutPipe()
	if err != nil {
		return nil, err
	}
	cmd.Stderr = cmd.Stdout
	if err := cmd.Start(); err != nil {
		return nil, err
	}
	s := &Solver{kind: kind, cmd: cmd, in: in, out: bufio.NewReaderSize(out, 1<<16), timeout: timeout}
	if f := os.Getenv("SYMGO_SMTLOG"); f != "" {
		w, _ := os.OpenFile(fmt.Sprintf("%s.%d", f, cmd.Process.Pid), os.O_CREATE|os.O_WRONLY|os.O_TRUNC, 0o644)
		s.log = w
	}
	s.Send("(set-option :produce-models true)\n")
	if kind == SolverCVC5 || kind == SolverCVC5Int {
		s.Send("(set-logic ALL)\n")
	}
	return s, nil
}

func (s *Solver) Send(str string) {
	if s.dead {
		return
	}
	if s.log != nil {
		io.WriteString(s.log, str)
	}
	if _, err := io.WriteString(s.in, str); err != nil {
		s.dead = true
	}
}

func (s *Solver) Close() {
	if s.cmd != nil && s.cmd.Process != nil {
		s.in.Close()
		s.cmd.Process.Kill()
		s.cmd.Wait()
	}
}

func (s *Solver) readLine() (string, error) {
	line, err := s.out.ReadString('\n')
	if s.log != nil {
		io.WriteString(s.log, "; <- "+line)
	}
	return strings.TrimSpace(line), err
}

// CheckSat returns "sat", "unsat" or "unknown" (errors, timeouts -> unknown).
func (s *Solver) CheckSat() string {
	if s.dead {
		return "unknown"
	}
	t0 := time.Now()
	s.Send("(check-sat)\n")
	res := "unknown"
	// watchdog: some solver builds ignore their own per-query limit
	wd := time.AfterFunc(s.timeout+5*time.Second, func() {
		if s.cmd != nil && s.cmd.Process != nil {
			s.cmd.Process.Kill()
		}
	})
	defer wd.Stop()
	for {
		line, err := s.readLine()
		if err != nil {
			s.dead = true
			break
		}
		if line == "sat" || line == "unsat" || line == "unknown" {
			res = line
			break
		}
		if strings.HasPrefix(line, "(error") {
			fmt.Fprintf(os.Stderr, "solver %v error: %s\n", s.kind, line)
			// keep reading: z3 still prints a verdict afterwards, which we must
			// consume, but the answer is inconclusive.
			for {
				l2, err := s.readLine()
				if err != nil {
					s.dead = true
					break
				}
				if l2 == "sat" || l2 == "unsat" || l2 == "unknown" {
					break
				}
			}
			res = "unknown"
			break
		}
		if line == "" {
			continue
		}
		if strings.Contains(line, "timeout") || strings.Contains(line, "interrupted") {
			// cvc5 prints "cvc5 interrupted by timeout." and dies
			s.dead = true
			break
		}
	}
	st := &globalSolverStats[s.kind]
	atomic.AddInt64(&st.Nanos, int64(time.Since(t0)))
	switch res {
	case "sat":
		atomic.AddInt64(&st.Sat, 1)
	case "unsat":
		atomic.AddInt64(&st.Unsat, 1)
	default:
		atomic.AddInt64(&st.Unknown, 1)
	}
	return res
}

// GetValues reads the model values of the given variables (Bool or BV).
func (s *Solver) GetValues(vars []*Term) (Model, bool) {
	m := make(Model, len(vars))
	if len(vars) == 0 {
		return m, true
	}
	var sb strings.Builder
	sb.WriteString("(get-value (")
	for _, v := range vars {
		sb.WriteString(tname(v))
		sb.WriteByte(' ')
	}
	sb.WriteString("))\n")
	s.Send(sb.String())
	// read a balanced s-expression
	depth := 0
	var text strings.Builder
	started := false
	for {
		line, err := s.readLine()
		if err != nil {
			s.dead = true
			return nil, false
		}
		if strings.HasPrefix(line, "(error") {
			fmt.Fprintf(os.Stderr, "solver get-value error: %s\n", line)
			return nil, false
		}
		for _, ch := range line {
			if ch == '(' {
				depth++
				started = true
			} else if ch == ')' {
				depth--
			}
		}
		text.WriteString(line)
		text.WriteByte(' ')
		if started && depth <= 0 {
			break
		}
	}
	// parse pairs: (vN value)
	str := text.String()
	for i, v := range vars {
		name := tname(v)
		idx := strings.Index(str, "("+name+" ")
		if idx < 0 {
			return nil, false
		}
		rest := str[idx+len(name)+2:]
		val, ok := parseSMTValue(rest)
		if !ok {
			fmt.Fprintf(os.Stderr, "cannot parse model value for %s: %.60s\n", name, rest)
			return nil, false
		}
		m[i] = val
	}
	return m, true
}

func parseSMTValue(s string) (uint64, bool) {
	s = strings.TrimSpace(s)
	switch {
	case strings.HasPrefix(s, "true"):
		return 1, true
	case strings.HasPrefix(s, "false"):
		return 0, true
	case strings.HasPrefix(s, "#x"):
		end := 2
		for end < len(s) && isHex(s[end]) {
			end++
		}
		v, err := strconv.ParseUint(s[2:end], 16, 64)
		return v, err == nil
	case strings.HasPrefix(s, "#b"):
		end := 2
		for end < len(s) && (s[end] == '0' || s[end] == '1') {
			end++
		}
		v, err := strconv.ParseUint(s[2:end], 2, 64)
		return v, err == nil
	case strings.HasPrefix(s, "(_ bv"):
		rest := s[5:]
		end := 0
		for end < len(rest) && rest[end] >= '0' && rest[end] <= '9' {
			end++
		}
		v, err := strconv.ParseUint(rest[:end], 10, 64)
		return v, err == nil
	}
	return 0, false
}

func isHex(c byte) bool {
	return c >= '0' && c <= '9' || c >= 'a' && c <= 'f' || c >= 'A' && c <= 'F'
}
