package main

// Property-level driver: runs the harnesses registered for a property at a
// tier, replays candidates natively, prints VIOLATION / KNOWN-FINDING /
// INCONCLUSIVE lines and writes the evidence file.

import (
	"encoding/json"
	"flag"
	"fmt"
	"os"
	"os/exec"
	"path/filepath"
	"regexp"
	"runtime"
	"sort"
	"strconv"
	"strings"
	"sync/atomic"
	"time"

	"golang.org/x/tools/go/ssa"
)

type HarnessSpec struct {
	Name     string         `json:"name"`
	Params   map[string]int `json:"params,omitempty"`
	MaxPaths int64          `json:"max_paths,omitempty"`
	MaxSteps int64          `json:"max_steps,omitempty"`
	TimeoutS int            `json:"timeout_s,omitempty"` // solver per-query timeout
	BudgetS  int            `json:"budget_s,omitempty"`  // wall clock budget for this harness
	Final    []string       `json:"final_solvers,omitempty"`
	Bounds   string         `json:"bounds,omitempty"`
	Solver   string         `json:"solver,omitempty"`
	Label    string         `json:"label,omitempty"`
}

type TierSpec struct {
	Harnesses []HarnessSpec `json:"harnesses"`
}

type PropertySpec struct {
	Title   string              `json:"title"`
	Tiers   map[string]TierSpec `json:"tiers"`
	Stubs   []string            `json:"stubs,omitempty"`
	Outside []string            `json:"outside,omitempty"`
}

type KnownFinding struct {
	ID       string `json:"id"`
	Property string `json:"property"`
	What     string `json:"what"`
	Status   string `json:"status"` // open | fixed:<commit>
	Input    string `json:"input,omitempty"`
}

func loadKnown(path string) ([]KnownFinding, error) {
	data, err := os.ReadFile(path)
	if err != nil {
		if os.IsNotExist(err) {
			return nil, nil
		}
		return nil, err
	}
	var kf struct {
		Findings []KnownFinding `json:"findings"`
	}
	if err := json.Unmarshal(data, &kf); err != nil {
		return nil, err
	}
	return kf.Findings, nil
}

type replayCase struct {
	File    string
	V       *Violation
	Params  map[string]int
	Outcome *replayOutcome
}

type replayOutcome struct {
	Ran     bool
	Fails   []string
	Escaped string
	Logs    []string
}

func cmdCheck(args []string) {
	fs := flag.NewFlagSet("check", flag.ExitOnError)
	repo := fs.String("repo", "/repo", "")
	verif := fs.String("verif", "/verif", "")
	tier := fs.String("tier", "quick", "")
	workers := fs.Int("j", runtime.NumCPU(), "")
	verbose := fs.Bool("v", false, "")
	only := fs.String("only", "", "run only harnesses matching this regexp")
	noReplay := fs.Bool("no-replay", false, "")
	noEvidence := fs.Bool("no-evidence", false, "")
	fs.Parse(args)
	if fs.NArg() != 1 {
		fmt.Fprintln(os.Stderr, "usage: symgo check [flags] <property-id>")
		os.Exit(2)
	}
	if t := os.Getenv("VERIF_TIER"); t != "" && !flagSet(fs, "tier") {
		*tier = t
	}
	id := fs.Arg(0)
	seed := 0
	fmt.Sscan(os.Getenv("VERIF_SEED"), &seed)
	t0 := time.Now()

	var specs map[string]PropertySpec
	data, err := os.ReadFile(filepath.Join(*verif, "checks.json"))
	if err != nil {
		fatal(err)
	}
	if err := json.Unmarshal(data, &specs); err != nil {
		fatal(err)
	}
	spec, ok := specs[id]
	if !ok {
		fatal(fmt.Errorf("no check registered for %s", id))
	}
	ts, ok := spec.Tiers[*tier]
	if !ok {
		fatal(fmt.Errorf("no tier %s for %s", *tier, id))
	}
	known, err := loadKnown(filepath.Join(*verif, "known_findings.json"))
	if err != nil {
		fatal(err)
	}
	knownOpen := map[string]bool{}
	knownWhat := map[string]string{}
	for _, k := range known {
		if k.Status == "open" {
			knownOpen[k.ID] = true
			replayKnownOpen = append(replayKnownOpen, k.ID)
		}
		knownWhat[k.ID] = k.What
	}

	ev := &Evidence{PropertyID: id, Tier: *tier, Seed: seed, Level: "model_checking", funcs: map[string]bool{}, stubs: map[string]bool{}}
	ev.Coverage.Bounds = map[string]string{}
	ev.Coverage.Harnesses = map[string]*HarnessEvidence{}
	evPath := filepath.Join(*verif, "evidence", id+".json")

	lp, err := loadProgram(*repo, filepath.Join(*verif, "harness"))
	if err != nil {
		// harness does not compile against this tree: inconclusive, not a violation
		fmt.Printf("INCONCLUSIVE property=%s reason=%q\n", id, err.Error())
		ev.Coverage.Inconclusive = []string{"load: " + err.Error()}
		ev.finish(t0, spec)
		if !*noEvidence {
			ev.write(evPath)
		}
		os.Exit(0)
	}
	loadT := time.Since(t0)

	var onlyRe *regexp.Regexp
	if *only != "" {
		onlyRe = regexp.MustCompile(*only)
	}
	var results []*HarnessResult
	var cases []*replayCase
	replayDir, _ := os.MkdirTemp("", "symgo-replay-")
	defer os.RemoveAll(replayDir)
	inconclusive := 0
	for _, hs := range ts.Harnesses {
		if onlyRe != nil && !onlyRe.MatchString(hs.Name+"/"+hs.Label) {
			continue
		}
		fn := lp.harnesses[hs.Name]
		if fn == nil {
			fmt.Printf("INCONCLUSIVE property=%s reason=%q\n", id, "harness "+hs.Name+" not found")
			inconclusive++
			continue
		}
		cfg := defaultConfig()
		cfg.Workers = *workers
		cfg.Verbose = *verbose
		cfg.KnownOpen = knownOpen
		cfg.MaxPaths = hs.MaxPaths
		cfg.Params = hs.Params
		cfg.Primary = solverName(hs.Solver)
		if hs.MaxSteps > 0 {
			cfg.MaxSteps = hs.MaxSteps
		}
		if hs.TimeoutS > 0 {
			cfg.QueryTimeout = time.Duration(hs.TimeoutS) * time.Second
		}
		if hs.BudgetS > 0 {
			cfg.Deadline = time.Now().Add(time.Duration(hs.BudgetS) * time.Second)
		}
		for _, f := range hs.Final {
			switch f {
			case "z3":
				cfg.FinalSolvers = append(cfg.FinalSolvers, SolverZ3)
			case "z3-new":
				cfg.FinalSolvers = append(cfg.FinalSolvers, SolverZ3New)
			case "cvc5":
				cfg.FinalSolvers = append(cfg.FinalSolvers, SolverCVC5)
			case "cvc5-int":
				cfg.FinalSolvers = append(cfg.FinalSolvers, SolverCVC5Int)
			}
		}
		eng := &Engine{prog: lp.prog, cfg: cfg, lp: lp}
		registerIntrinsics(eng)
		res := eng.RunHarness(fn)
		res.spec = hs
		results = append(results, res)
		if *verbose {
			printResult(res)
		}
		// vacuity: every cover tag in the harness source must have a witness
		for _, tag := range coverTags(fn) {
			if _, ok := res.Covers[tag]; !ok {
				res.Inconclusive["vacuity: cover tag never reached: "+tag]++
			}
		}
		add := func(v *Violation) {
			c := &replayCase{V: v, Params: hs.Params}
			c.File = filepath.Join(replayDir, fmt.Sprintf("%s-%d.json", hs.Name, len(cases)))
			cases = append(cases, c)
		}
		// de-duplicate violations by tag+site, keep at most 3 per tag
		perTag := map[string]int{}
		for i := range res.Violations {
			v := &res.Violations[i]
			k := v.Tag + "@" + v.Site
			// distinguish by the leading verifChoose values (harness case split)
			for i, kd := range v.Kinds {
				if kd != "int" || i >= 2 {
					break
				}
				k += fmt.Sprintf("/%d", v.Vector[i])
			}
			if perTag[k] >= 2 || len(cases) >= 80 {
				continue
			}
			perTag[k]++
			add(v)
		}
		for _, k := range sortedKeys(res.KnownHits) {
			add(res.KnownHits[k])
		}
		for _, k := range sortedKeys(res.Covers) {
			add(res.Covers[k])
		}
	}

	// native replay
	replayed := 0
	if !*noReplay && len(cases) > 0 {
		if err := runReplay(lp, *repo, *verif, replayDir, cases); err != nil {
			fmt.Printf("INCONCLUSIVE property=%s reason=%q\n", id, "native replay failed: "+err.Error())
			inconclusive++
		}
	}

	violations := 0
	mismatches := 0
	knownPrinted := map[string]bool{}
	os.MkdirAll(filepath.Join(*verif, "replays", id), 0o755)
	for _, c := range cases {
		if c.Outcome == nil || !c.Outcome.Ran {
			continue
		}
		replayed++
		switch c.V.Kind {
		case "cover":
			// witness must replay without failing assertions
			if len(c.Outcome.Fails) > 0 || c.Outcome.Escaped != "" {
				// a cover witness may legitimately sit in a known-finding region
				onlyKnown := c.Outcome.Escaped == ""
				for _, f := range c.Outcome.Fails {
					if !strings.HasPrefix(f, "KNOWN:") {
						onlyKnown = false
					}
				}
				if !onlyKnown {
					fmt.Printf("ENGINE-MISMATCH property=%s harness=%s cover=%q native-fails=%v escaped=%q\n", id, c.V.Harness, c.V.Tag, c.Outcome.Fails, c.Outcome.Escaped)
					mismatches++
				}
			}
		case "known":
			hit := false
			for _, f := range c.Outcome.Fails {
				if strings.HasPrefix(f, "KNOWN:"+c.V.Known+":") {
					hit = true
				}
			}
			if hit {
				if !knownPrinted[c.V.Known] {
					knownPrinted[c.V.Known] = true
					fmt.Printf("KNOWN-FINDING: property=%s %s [%s] vector=%s\n", id, knownWhat[c.V.Known], c.V.Known, vecString(c.V))
				}
			} else {
				fmt.Printf("ENGINE-MISMATCH property=%s harness=%s known=%s did not reproduce natively (fails=%v escaped=%q)\n", id, c.V.Harness, c.V.Known, c.Outcome.Fails, c.Outcome.Escaped)
				mismatches++
			}
		default:
			repro := c.Outcome.Escaped != ""
			for _, f := range c.Outcome.Fails {
				if f == c.V.Tag {
					repro = true
				}
			}
			if repro {
				violations++
				dst := filepath.Join(*verif, "replays", id, filepath.Base(c.File))
				copyFile(c.File, dst)
				fmt.Printf("VIOLATION property=%s replay=%s\n", id, dst)
				fmt.Printf("  harness=%s assertion=%q site=%s inputs=%s native=%v %s\n", c.V.Harness, c.V.Tag, c.V.Site, vecString(c.V), c.Outcome.Fails, c.Outcome.Escaped)
				for _, l := range c.Outcome.Logs {
					fmt.Printf("    log: %s\n", l)
				}
			} else {
				fmt.Printf("ENGINE-MISMATCH property=%s harness=%s tag=%q: solver counterexample %s did not reproduce natively (fails=%v)\n", id, c.V.Harness, c.V.Tag, vecString(c.V), c.Outcome.Fails)
				mismatches++
			}
		}
	}
	if *noReplay {
		for _, r := range results {
			for _, v := range r.Violations {
				fmt.Printf("CANDIDATE property=%s harness=%s tag=%q site=%s inputs=%s\n", id, r.Name, v.Tag, v.Site, vecString(&v))
			}
		}
	}

	// evidence
	for _, r := range results {
		he := &HarnessEvidence{
			Paths: r.Paths, Completed: r.Completed, Decisions: r.Decisions, Obligations: r.Obligations, Discharged: r.Discharged,
			Steps: r.Steps, WallS: r.Wall.Seconds(), Bounds: r.spec.Bounds, Params: r.spec.Params,
			Covers: sortedKeys(r.Covers), Candidates: len(r.Violations), KnownHits: sortedKeys(r.KnownHits),
			VacuityTwin: "not reached",
		}
		if r.Completed > 0 {
			he.VacuityTwin = "violated"
		}
		for _, k := range sortedKeys(r.Inconclusive) {
			he.Inconclusive = append(he.Inconclusive, fmt.Sprintf("%s x%d", k, r.Inconclusive[k]))
			fmt.Printf("INCONCLUSIVE property=%s harness=%s reason=%q count=%d\n", id, r.Name, k, r.Inconclusive[k])
			inconclusive++
		}
		for _, k := range sortedKeys(r.Cuts) {
			he.Cuts = append(he.Cuts, fmt.Sprintf("%s x%d", k, r.Cuts[k]))
		}
		key := r.Name
		if r.spec.Label != "" {
			key += "/" + r.spec.Label
		} else if _, dup := ev.Coverage.Harnesses[key]; dup {
			key = fmt.Sprintf("%s/%d", key, len(ev.Coverage.Harnesses))
		}
		ev.Coverage.Harnesses[key] = he
		ev.Coverage.States += r.Paths
		ev.Coverage.Transitions += r.Decisions
		ev.Coverage.Obligations += r.Obligations
		ev.Coverage.Discharged += r.Discharged
		ev.Coverage.Steps += r.Steps
		for f := range r.Funcs {
			ev.funcs[f] = true
		}
		for s := range r.Stubs {
			ev.stubs[s] = true
		}
		for _, s := range r.Samples {
			if len(ev.Coverage.Samples) < 24 {
				ev.Coverage.Samples = append(ev.Coverage.Samples, r.Name+": "+s)
			}
		}
		for _, k := range sortedKeys(r.Covers) {
			if len(ev.Coverage.Samples) < 40 {
				ev.Coverage.Samples = append(ev.Coverage.Samples, fmt.Sprintf("%s: witness for cover %q inputs=%s", r.Name, k, vecString(r.Covers[k])))
			}
		}
		if r.spec.Bounds != "" {
			ev.Coverage.Bounds[key] = r.spec.Bounds
		}
	}
	ev.Coverage.TracesValidated = int64(replayed)
	ev.Coverage.EngineMismatches = mismatches
	ev.Coverage.InconclusiveCount = inconclusive
	ev.Coverage.KnownFindings = sortedKeysB(knownPrinted)
	ev.Coverage.LoadS = loadT.Seconds()
	ev.Violations = violations
	ev.finish(t0, spec)
	if !*noEvidence {
		ev.write(evPath)
	}
	fmt.Printf("SUMMARY property=%s tier=%s harnesses=%d paths=%d decisions=%d obligations=%d discharged=%d replayed=%d violations=%d known=%d inconclusive=%d mismatches=%d wall=%.1fs\n",
		id, *tier, len(results), ev.Coverage.States, ev.Coverage.Transitions, ev.Coverage.Obligations, ev.Coverage.Discharged, replayed, violations, len(knownPrinted), inconclusive, mismatches, time.Since(t0).Seconds())
	if violations > 0 {
		os.Exit(1)
	}
	os.Exit(0)
}

func flagSet(fs *flag.FlagSet, name string) bool {
	found := false
	fs.Visit(func(f *flag.Flag) {
		if f.Name == name {
			found = true
		}
	})
	return found
}

func sortedKeysB(m map[string]bool) []string {
	var ks []string
	for k := range m {
		ks = append(ks, k)
	}
	sort.Strings(ks)
	return ks
}

func fatal(err error) {
	fmt.Fprintln(os.Stderr, "symgo:", err)
	os.Exit(2)
}

func copyFile(src, dst string) {
	data, err := os.ReadFile(src)
	if err == nil {
		os.WriteFile(dst, data, 0o644)
	}
}

func vecString(v *Violation) string {
	var sb strings.Builder
	sb.WriteByte('[')
	for i, x := range v.Vector {
		if i > 0 {
			sb.WriteByte(' ')
		}
		k := ""
		if i < len(v.Kinds) {
			k = v.Kinds[i]
		}
		fmt.Fprintf(&sb, "%s:%#x", k, x)
	}
	sb.WriteByte(']')
	return sb.String()
}

// coverTags collects the constant tags of verifCover calls in fn and the
// anonymous functions nested in it.
func coverTags(fn *ssa.Function) []string {
	seen := map[string]bool{}
	var walk func(f *ssa.Function)
	walk = func(f *ssa.Function) {
		for _, b := range f.Blocks {
			for _, in := range b.Instrs {
				if c, ok := in.(*ssa.Call); ok {
					if callee := c.Call.StaticCallee(); callee != nil && callee.Name() == "verifCover" {
						if k, ok := c.Call.Args[0].(*ssa.Const); ok {
							seen[constValue(k).(string)] = true
						}
					}
				}
			}
		}
		for _, af := range f.AnonFuncs {
			walk(af)
		}
	}
	walk(fn)
	return sortedKeysB(seen)
}

// ---- evidence ----

type HarnessEvidence struct {
	Paths        int64          `json:"paths"`
	Completed    int64          `json:"paths_completed"`
	Decisions    int64          `json:"solver_decided_branches"`
	Obligations  int64          `json:"obligations"`
	Discharged   int64          `json:"discharged"`
	Steps        int64          `json:"ssa_instructions_executed"`
	WallS        float64        `json:"wall_s"`
	Bounds       string         `json:"bounds,omitempty"`
	Params       map[string]int `json:"params,omitempty"`
	Covers       []string       `json:"cover_witnesses"`
	Candidates   int            `json:"candidate_counterexamples"`
	KnownHits    []string       `json:"known_finding_hits,omitempty"`
	Inconclusive []string       `json:"inconclusive,omitempty"`
	Cuts         []string       `json:"cuts_outside_the_claim,omitempty"`
	VacuityTwin  string         `json:"vacuity_twin"`
}

type Evidence struct {
	PropertyID string `json:"property_id"`
	Tier       string `json:"tier"`
	Seed       int    `json:"seed"`
	Level      string `json:"level"`
	Coverage   struct {
		States            int64                       `json:"states"`
		Transitions       int64                       `json:"transitions"`
		TracesValidated   int64                       `json:"traces_validated_against_impl"`
		Obligations       int64                       `json:"obligations"`
		Discharged        int64                       `json:"discharged"`
		Steps             int64                       `json:"ssa_instructions_executed"`
		Samples           []string                    `json:"samples"`
		Bounds            map[string]string           `json:"bounds"`
		Harnesses         map[string]*HarnessEvidence `json:"harnesses"`
		FunctionsEncoded  []string                    `json:"functions_encoded"`
		NFunctions        int                         `json:"functions_encoded_count"`
		StubsHit          []string                    `json:"stubs_hit"`
		Queries           map[string]map[string]any   `json:"queries"`
		Inconclusive      []string                    `json:"inconclusive,omitempty"`
		InconclusiveCount int                         `json:"inconclusive_count"`
		EngineMismatches  int                         `json:"engine_mismatches"`
		KnownFindings     []string                    `json:"known_findings_reported"`
		Outside           []string                    `json:"outside_the_claim,omitempty"`
		LoadS             float64                     `json:"ssa_load_build_s"`
		Explanation       string                      `json:"explanation"`
		Exhaustive        bool                        `json:"exhaustive"`
	} `json:"coverage"`
	Assumptions []string `json:"assumptions"`
	WallS       float64  `json:"wall_s"`
	Violations  int      `json:"violations"`

	funcs map[string]bool
	stubs map[string]bool
}

func (ev *Evidence) finish(t0 time.Time, spec PropertySpec) {
	if ev.funcs == nil {
		ev.funcs = map[string]bool{}
	}
	if ev.stubs == nil {
		ev.stubs = map[string]bool{}
	}
	ev.WallS = time.Since(t0).Seconds()
	fl := sortedKeysB(ev.funcs)
	ev.Coverage.NFunctions = len(fl)
	// only functions of the repository and a count for the rest, to keep the file readable
	var repoF []string
	other := 0
	for _, f := range fl {
		if strings.Contains(f, modPath) {
			if !strings.Contains(f, "verif") && !strings.Contains(f, "VerifH_") {
				repoF = append(repoF, strings.ReplaceAll(f, modPath, "otto"))
			}
		} else {
			other++
		}
	}
	if len(repoF) > 400 {
		repoF = append(repoF[:400], fmt.Sprintf("... and %d more", len(repoF)-400))
	}
	ev.Coverage.FunctionsEncoded = append(repoF, fmt.Sprintf("(+%d standard-library functions executed from their own SSA)", other))
	ev.Coverage.StubsHit = sortedKeysB(ev.stubs)
	if ev.Coverage.StubsHit == nil {
		ev.Coverage.StubsHit = []string{}
	}
	ev.Coverage.Queries = map[string]map[string]any{}
	for k := range globalSolverStats {
		st := &globalSolverStats[k]
		n := atomic.LoadInt64(&st.Sat) + atomic.LoadInt64(&st.Unsat) + atomic.LoadInt64(&st.Unknown)
		if n == 0 {
			continue
		}
		ev.Coverage.Queries[SolverKind(k).String()] = map[string]any{
			"sat": st.Sat, "unsat": st.Unsat, "unknown": st.Unknown, "solver_seconds": float64(st.Nanos) / 1e9,
		}
	}
	if ev.Coverage.Samples == nil {
		ev.Coverage.Samples = []string{"(no obligations reached)"}
	}
	if ev.Coverage.KnownFindings == nil {
		ev.Coverage.KnownFindings = []string{}
	}
	ev.Coverage.Outside = spec.Outside
	ev.Coverage.Explanation = "Bounded symbolic execution of the real functions from go/ssa (rebuilt from /repo on this run); states = explored paths, transitions = branch decisions settled by an SMT query, obligations = assertion and panic-freedom queries (discharged = unsat), traces_validated_against_impl = solver models (cover witnesses, counterexamples, known findings) replayed against the natively compiled code."
	ev.Assumptions = append([]string{
		"go/ssa translation of Go; engine instruction semantics and intrinsics (validated by native replay of every witness)",
		"SMT solvers z3 4.8.12 / z3 5.1.0 / cvc5 1.0",
		"oracles in /verif/harness (ES5 clauses transcribed independently of otto)",
		"nothing is claimed outside the bounds listed under coverage.bounds",
	}, spec.Stubs...)
}

func (ev *Evidence) write(path string) {
	os.MkdirAll(filepath.Dir(path), 0o755)
	data, _ := json.MarshalIndent(ev, "", " ")
	if err := os.WriteFile(path, data, 0o644); err != nil {
		fmt.Fprintln(os.Stderr, "cannot write evidence:", err)
	}
}

// ---- native replay ----

var replayKnownOpen []string

func runReplay(lp *loaded, repo, verif, dir string, cases []*replayCase) error {
	// group by package of the harness
	byPkg := map[string][]*replayCase{}
	for _, c := range cases {
		fn := lp.harnesses[c.V.Harness]
		rec := map[string]any{"harness": c.V.Harness, "vector": c.V.Vector, "kinds": c.V.Kinds, "tag": c.V.Tag, "kind": c.V.Kind, "params": c.Params, "known_open": replayKnownOpen}
		data, _ := json.Marshal(rec)
		if err := os.WriteFile(c.File, data, 0o644); err != nil {
			return err
		}
		byPkg[fn.Pkg.Pkg.Path()] = append(byPkg[fn.Pkg.Pkg.Path()], c)
	}
	for pkgPath, cs := range byPkg {
		sub := strings.TrimPrefix(strings.TrimPrefix(pkgPath, modPath), "/")
		pkgDir := repo
		pkgName := "otto"
		if sub != "" {
			pkgDir = filepath.Join(repo, sub)
			pkgName = filepath.Base(sub)
		}
		// registry + test driver
		var names []string
		for n, f := range lp.harnesses {
			if f.Pkg.Pkg.Path() == pkgPath {
				names = append(names, n)
			}
		}
		sort.Strings(names)
		var sb strings.Builder
		fmt.Fprintf(&sb, "//go:build verif\n\npackage %s\n\nimport (\n\t\"fmt\"\n\t\"os\"\n\t\"path/filepath\"\n\t\"sort\"\n\t\"testing\"\n)\n\n", pkgName)
		sb.WriteString("var verifHarnesses = map[string]func(){\n")
		for _, n := range names {
			fmt.Fprintf(&sb, "\t%q: %s,\n", n, n)
		}
		sb.WriteString("}\n\n")
		sb.WriteString(`func TestVerifReplay(t *testing.T) {
	dir := os.Getenv("VERIF_REPLAY_DIR")
	files, _ := filepath.Glob(filepath.Join(dir, "*.json"))
	sort.Strings(files)
	for _, f := range files {
		name, err := verifLoadReplay(f)
		if err != nil {
			fmt.Printf("REPLAY-ERROR %s %v\n", f, err)
			continue
		}
		h := verifHarnesses[name]
		if h == nil {
			continue
		}
		fails, escaped := verifRunHarness(name, h)
		for _, l := range verifRS.Logs {
			fmt.Printf("REPLAYLOG %s %s\n", filepath.Base(f), l)
		}
		fmt.Printf("REPLAY %s fails=%q escaped=%q\n", filepath.Base(f), fails, fmt.Sprint(escaped))
	}
}
`)
		testFile := filepath.Join(dir, "zz_verif_replay_"+pkgName+"_test.go")
		if err := os.WriteFile(testFile, []byte(sb.String()), 0o644); err != nil {
			return err
		}
		ov := map[string]string{filepath.Join(pkgDir, "zz_verif_replay_test.go"): testFile}
		for v, r := range lp.overlayFiles {
			ov[v] = r
		}
		ovData, _ := json.Marshal(map[string]any{"Replace": ov})
		ovFile := filepath.Join(dir, "overlay-"+pkgName+".json")
		os.WriteFile(ovFile, ovData, 0o644)
		// only this package's cases
		caseDir := filepath.Join(dir, "cases-"+pkgName)
		os.MkdirAll(caseDir, 0o755)
		for _, c := range cs {
			copyFile(c.File, filepath.Join(caseDir, filepath.Base(c.File)))
		}
		cmd := exec.Command("go", "test", "-tags", "verif", "-vet=off", "-count=1", "-v", "-run", "^TestVerifReplay$", "-overlay", ovFile, "-timeout", "20m", ".")
		cmd.Dir = pkgDir
		cmd.Env = append(os.Environ(), "VERIF_REPLAY_DIR="+caseDir, "TZ=", "GOFLAGS=-mod=mod", "GOPROXY=off", "GOSUMDB=off", "GOTOOLCHAIN=local")
		out, err := cmd.CombinedOutput()
		re := regexp.MustCompile(`(?m)^REPLAY (\S+) fails=(\[.*?\]) escaped="(.*)"$`)
		found := map[string]*replayOutcome{}
		for _, m := range re.FindAllStringSubmatch(string(out), -1) {
			o := &replayOutcome{Ran: true}
			// fails printed with %q on []string: ["a" "b"]
			for _, q := range regexp.MustCompile(`"((?:[^"\\]|\\.)*)"`).FindAllStringSubmatch(m[2], -1) {
				s, err := strconv.Unquote(`"` + q[1] + `"`)
				if err != nil {
					s = q[1]
				}
				o.Fails = append(o.Fails, s)
			}
			if m[3] != "<nil>" {
				o.Escaped = m[3]
			}
			found[m[1]] = o
		}
		for _, m := range regexp.MustCompile(`(?m)^REPLAYLOG (\S+) (.*)$`).FindAllStringSubmatch(string(out), -1) {
			if o := found[m[1]]; o != nil {
				o.Logs = append(o.Logs, m[2])
			}
		}
		for _, c := range cs {
			c.Outcome = found[filepath.Base(c.File)]
		}
		if len(found) == 0 {
			return fmt.Errorf("go test produced no replay output: %v\n%s", err, tail(string(out), 2000))
		}
	}
	return nil
}

func tail(s string, n int) string {
	if len(s) > n {
		return s[len(s)-n:]
	}
	return s
}

// ---- selftest: engine (concrete mode) vs native execution of every harness ----

func cmdSelftest(args []string) {
	fs := flag.NewFlagSet("selftest", flag.ExitOnError)
	repo := fs.String("repo", "/repo", "")
	verif := fs.String("verif", "/verif", "")
	tier := fs.String("tier", "quick", "")
	fs.Parse(args)
	var specs map[string]PropertySpec
	data, err := os.ReadFile(filepath.Join(*verif, "checks.json"))
	if err != nil {
		fatal(err)
	}
	if err := json.Unmarshal(data, &specs); err != nil {
		fatal(err)
	}
	lp, err := loadProgram(*repo, filepath.Join(*verif, "harness"))
	if err != nil {
		fatal(err)
	}
	known, _ := loadKnown(filepath.Join(*verif, "known_findings.json"))
	knownOpen := map[string]bool{}
	for _, k := range known {
		if k.Status == "open" {
			knownOpen[k.ID] = true
			replayKnownOpen = append(replayKnownOpen, k.ID)
		}
	}
	dir, _ := os.MkdirTemp("", "symgo-selftest-")
	defer os.RemoveAll(dir)
	type tcase struct {
		rc     *replayCase
		engine map[string]bool
		note   string
	}
	var all []*tcase
	var cases []*replayCase
	patterns := [][]uint64{{0}, {1}, {2}, {0, 1, 2}, {1, 0}, {2, 1, 0, 1}}
	ids := sortedKeys(specs)
	for _, id := range ids {
		if fs.NArg() > 0 && fs.Arg(0) != id {
			continue
		}
		for _, hs := range specs[id].Tiers[*tier].Harnesses {
			fn := lp.harnesses[hs.Name]
			if fn == nil {
				continue
			}
			for _, pat := range patterns {
				vec := make([]uint64, 64)
				for i := range vec {
					vec[i] = pat[i%len(pat)]
				}
				cfg := defaultConfig()
				cfg.Workers = 1
				cfg.KnownOpen = knownOpen
				cfg.Params = hs.Params
				cfg.Vector = vec
				cfg.MaxSteps = 20_000_000
				eng := &Engine{prog: lp.prog, cfg: cfg, lp: lp}
				registerIntrinsics(eng)
				res := eng.RunHarness(fn)
				tc := &tcase{engine: map[string]bool{}}
				for _, v := range res.Violations {
					tc.engine[v.Tag] = true
				}
				if len(res.Inconclusive) > 0 {
					for k := range res.Inconclusive {
						tc.note = k
					}
				}
				v := &Violation{Harness: hs.Name, Tag: "selftest", Kind: "selftest", Vector: vec}
				tc.rc = &replayCase{V: v, Params: hs.Params, File: filepath.Join(dir, fmt.Sprintf("%s-%d.json", hs.Name, len(cases)))}
				cases = append(cases, tc.rc)
				all = append(all, tc)
			}
		}
	}
	if err := runReplay(lp, *repo, *verif, dir, cases); err != nil {
		fmt.Println("SELFTEST replay failed:", err)
		os.Exit(2)
	}
	agree, skipped, mismatch := 0, 0, 0
	for _, tc := range all {
		if tc.rc.Outcome == nil || !tc.rc.Outcome.Ran {
			skipped++
			continue
		}
		if tc.note != "" {
			// the engine could not finish this concrete vector (e.g. an assume that fails, a stub): not comparable
			skipped++
			continue
		}
		native := map[string]bool{}
		for _, f := range tc.rc.Outcome.Fails {
			if !strings.HasPrefix(f, "KNOWN:") {
				native[f] = true
			}
		}
		// the engine stops a concrete path at its first failing assertion (it
		// then assumes the assertion, which is infeasible); natively the
		// harness runs on. Compare the first failure.
		first := ""
		for _, f := range tc.rc.Outcome.Fails {
			if !strings.HasPrefix(f, "KNOWN:") {
				first = f
				break
			}
		}
		same := (len(tc.engine) == 0 && len(native) == 0) || (len(tc.engine) > 0 && tc.engine[first])
		if same {
			agree++
		} else {
			mismatch++
			fmt.Printf("SELFTEST-MISMATCH harness=%s vector=%v engine=%v native=%v escaped=%q\n", tc.rc.V.Harness, tc.rc.V.Vector[:6], sortedKeysB(tc.engine), sortedKeysB(native), tc.rc.Outcome.Escaped)
		}
	}
	fmt.Printf("SELFTEST concrete vectors: %d agree, %d mismatches, %d not comparable\n", agree, mismatch, skipped)
	if mismatch > 0 {
		os.Exit(1)
	}
}

// ---- replay of a saved counterexample against the native build ----

func cmdReplay(args []string) {
	fs := flag.NewFlagSet("replay", flag.ExitOnError)
	repo := fs.String("repo", "/repo", "")
	verif := fs.String("verif", "/verif", "")
	fs.Parse(args)
	if fs.NArg() != 1 {
		fmt.Fprintln(os.Stderr, "usage: symgo replay <replay.json>")
		os.Exit(2)
	}
	data, err := os.ReadFile(fs.Arg(0))
	if err != nil {
		fatal(err)
	}
	var rec struct {
		Harness string         `json:"harness"`
		Vector  []uint64       `json:"vector"`
		Kinds   []string       `json:"kinds"`
		Tag     string         `json:"tag"`
		Kind    string         `json:"kind"`
		Params  map[string]int `json:"params"`
		Known   []string       `json:"known_open"`
	}
	if err := json.Unmarshal(data, &rec); err != nil {
		fatal(err)
	}
	lp, err := loadProgram(*repo, filepath.Join(*verif, "harness"))
	if err != nil {
		fatal(err)
	}
	replayKnownOpen = rec.Known
	dir, _ := os.MkdirTemp("", "symgo-replay-")
	defer os.RemoveAll(dir)
	v := &Violation{Harness: rec.Harness, Tag: rec.Tag, Kind: rec.Kind, Vector: rec.Vector, Kinds: rec.Kinds}
	c := &replayCase{V: v, Params: rec.Params, File: filepath.Join(dir, "case-0.json")}
	if err := runReplay(lp, *repo, *verif, dir, []*replayCase{c}); err != nil {
		fatal(err)
	}
	if c.Outcome == nil || !c.Outcome.Ran {
		fmt.Println("replay did not run")
		os.Exit(2)
	}
	fmt.Printf("harness=%s inputs=%s\n", rec.Harness, vecString(v))
	for _, l := range c.Outcome.Logs {
		fmt.Println("  log:", l)
	}
	fmt.Printf("failed assertions: %q\nescaped panic: %q\n", c.Outcome.Fails, c.Outcome.Escaped)
	for _, f := range c.Outcome.Fails {
		if f == rec.Tag {
			fmt.Println("REPRODUCED:", rec.Tag)
			os.Exit(1)
		}
	}
	if c.Outcome.Escaped != "" {
		fmt.Println("REPRODUCED: panic escaped")
		os.Exit(1)
	}
	fmt.Println("not reproduced on this tree")
}
