package main

import (
	"flag"
	"fmt"
	"os"
	"runtime"
	"strings"
	"time"
)

func main() {
	if len(os.Args) < 2 {
		fmt.Fprintln(os.Stderr, "usage: symgo run|check|list ...")
		os.Exit(2)
	}
	switch os.Args[1] {
	case "run":
		cmdRun(os.Args[2:])
	case "list":
		cmdList(os.Args[2:])
	case "check":
		cmdCheck(os.Args[2:])
	case "replay":
		cmdReplay(os.Args[2:])
	case "selftest":
		cmdSelftest(os.Args[2:])
	default:
		fmt.Fprintln(os.Stderr, "unknown command", os.Args[1])
		os.Exit(2)
	}
}

func defaultConfig() Config {
	return Config{
		Workers: runtime.NumCPU(), QueryTimeout: 30 * time.Second, MaxSteps: 5_000_000, MaxDecisions: 4000,
		KnownOpen: map[string]bool{}, FinalTimeout: 120 * time.Second,
	}
}

func cmdList(args []string) {
	fs := flag.NewFlagSet("list", flag.ExitOnError)
	repo := fs.String("repo", "/repo", "")
	hd := fs.String("harness", "/verif/harness", "")
	fs.Parse(args)
	lp, err := loadProgram(*repo, *hd)
	if err != nil {
		fmt.Fprintln(os.Stderr, err)
		os.Exit(2)
	}
	for _, n := range lp.harnessNames() {
		fmt.Println(n)
	}
}

func cmdRun(args []string) {
	fs := flag.NewFlagSet("run", flag.ExitOnError)
	repo := fs.String("repo", "/repo", "")
	hd := fs.String("harness", "/verif/harness", "")
	workers := fs.Int("j", runtime.NumCPU(), "")
	verbose := fs.Bool("v", false, "")
	maxPaths := fs.Int64("max-paths", 0, "")
	budget := fs.Int("budget", 0, "wall-clock budget in seconds per harness")
	qto := fs.Int("qtimeout", 0, "solver per-query timeout in seconds")
	params := fs.String("params", "", "k=v,k=v harness parameters")
	vector := fs.String("vector", "", "comma-separated concrete nondet values (concrete run)")
	finals := fs.String("final", "", "comma-separated portfolio solvers for undecided obligations (z3,z3-new,cvc5,cvc5-int)")
	fs.Parse(args)
	t0 := time.Now()
	lp, err := loadProgram(*repo, *hd)
	if err != nil {
		fmt.Fprintln(os.Stderr, err)
		os.Exit(2)
	}
	fmt.Fprintf(os.Stderr, "loaded in %v\n", time.Since(t0))
	cfg := defaultConfig()
	cfg.Workers = *workers
	cfg.Verbose = *verbose
	cfg.MaxPaths = *maxPaths
	if *qto > 0 {
		cfg.QueryTimeout = time.Duration(*qto) * time.Second
	}
	cfg.Params = map[string]int{}
	for _, kv := range strings.Split(*params, ",") {
		if k, v, ok := strings.Cut(kv, "="); ok {
			n := 0
			fmt.Sscan(v, &n)
			cfg.Params[k] = n
		}
	}
	for _, f := range strings.Split(*finals, ",") {
		if f != "" {
			cfg.FinalSolvers = append(cfg.FinalSolvers, solverName(f).kind())
		}
	}
	if *vector != "" {
		cfg.Vector = []uint64{}
		for _, x := range strings.Split(*vector, ",") {
			var v uint64
			fmt.Sscan(strings.TrimSpace(x), &v)
			cfg.Vector = append(cfg.Vector, v)
		}
	}
	eng := &Engine{prog: lp.prog, cfg: cfg, lp: lp}
	registerIntrinsics(eng)
	for _, name := range fs.Args() {
		fn := lp.harnesses[name]
		if fn == nil {
			fmt.Fprintln(os.Stderr, "no such harness:", name)
			os.Exit(2)
		}
		if *budget > 0 {
			eng.cfg.Deadline = time.Now().Add(time.Duration(*budget) * time.Second)
		}
		res := eng.RunHarness(fn)
		printResult(res)
	}
}

func printResult(res *HarnessResult) {
	fmt.Printf("== %s: paths=%d completed=%d decisions=%d obligations=%d discharged=%d violations=%d known=%d covers=%d steps=%d wall=%v\n",
		res.Name, res.Paths, res.Completed, res.Decisions, res.Obligations, res.Discharged, len(res.Violations), len(res.KnownHits), len(res.Covers), res.Steps, res.Wall.Round(time.Millisecond))
	for _, k := range sortedKeys(res.Inconclusive) {
		fmt.Printf("   INCONCLUSIVE %s x%d\n", k, res.Inconclusive[k])
	}
	for _, k := range sortedKeys(res.Cuts) {
		fmt.Printf("   CUT %s x%d\n", k, res.Cuts[k])
	}
	for i, v := range res.Violations {
		if i >= 10 {
			fmt.Printf("   ... %d more\n", len(res.Violations)-10)
			break
		}
		fmt.Printf("   candidate violation tag=%q kind=%s site=%s vector=%x\n", v.Tag, v.Kind, v.Site, v.Vector)
	}
	for _, k := range sortedKeys(res.KnownHits) {
		fmt.Printf("   known-finding hit %s vector=%x\n", k, res.KnownHits[k].Vector)
	}
	for _, k := range sortedKeys(res.Stubs) {
		fmt.Printf("   stub: %s\n", k)
	}
}

