package main

// Value representation (after x/tools/go/ssa/interp, with scalars generalised
// to SMT terms).
//
//   bool, all integers, floats      *Term
//   string                          string (all bytes concrete) | *SymStr
//   pointer                         *value | *symRef (symbolic element index)
//   struct / array                  structure / array  (copied on load/store)
//   slice                           []value
//   map                             *Map
//   interface                       iface
//   func                            *ssa.Function | *closure | *ssa.Builtin | *nativeFn
//   tuple                           tuple
//   chan                            *chanv
//   opaque host object              *native

import (
	"fmt"
	"go/types"
	"strings"

	"golang.org/x/tools/go/ssa"
)

type value interface{}

type structure []value
type array []value
type tuple []value

type iface struct {
	t types.Type
	v value
}

type closure struct {
	Fn  *ssa.Function
	Env []value
}

type native struct {
	v interface{}
}

// SymStr is a string of concrete length whose bytes are 8-bit terms.
type SymStr struct {
	b []*Term
}

// symRef is a pointer to elems[idx] where idx is symbolic and proven in range.
type symRef struct {
	elems []value
	idx   *Term // 64-bit
}

type chanv struct {
	poll  bool  // a verifPollChan channel
	fn    value // the func() delivered
	fired bool
	polls int
}

type bad struct{}

// ---- maps ----

type mapEnt struct {
	key     value
	val     value
	deleted bool
}

type Map struct {
	ents  map[interface{}]*mapEnt
	order []*mapEnt
	sym   []*mapEnt // entries with symbolic keys
	n     int
}

func newMap() *Map { return &Map{ents: map[interface{}]*mapEnt{}} }

type termKey struct {
	k    Kind
	w    int
	bits uint64
}
type ifaceKey struct {
	t string
	k interface{}
}

// concreteKey returns a comparable Go key for a fully concrete value.
func concreteKey(v value) (interface{}, bool) {
	switch v := v.(type) {
	case *Term:
		if v.Op != OConst {
			return nil, false
		}
		return termKey{v.S.K, v.S.W, v.C}, true
	case string:
		return v, true
	case *SymStr:
		return nil, false
	case *value:
		return v, true
	case iface:
		if v.t == nil {
			return ifaceKey{}, true
		}
		k, ok := concreteKey(v.v)
		if !ok {
			return nil, false
		}
		return ifaceKey{typeKey(v.t), k}, true
	case structure:
		var sb strings.Builder
		sb.WriteString("S{")
		for _, f := range v {
			k, ok := concreteKey(f)
			if !ok {
				return nil, false
			}
			fmt.Fprintf(&sb, "%T:%v;", k, k)
		}
		return sb.String(), true
	case array:
		var sb strings.Builder
		sb.WriteString("A{")
		for _, f := range v {
			k, ok := concreteKey(f)
			if !ok {
				return nil, false
			}
			fmt.Fprintf(&sb, "%T:%v;", k, k)
		}
		return sb.String(), true
	case *native:
		return v.v, true
	case *Map, *chanv, *ssa.Function, *closure:
		return v, true
	case nil:
		return nil, true
	}
	panic(fmt.Sprintf("concreteKey: %T", v))
}

var typeKeys = newTypeKeyer()

func typeKey(t types.Type) string {
	return typeKeys.key(t)
}

// ---- zero values ----

func sortOfBasic(b *types.Basic) (Sort, bool) {
	switch b.Kind() {
	case types.Bool, types.UntypedBool:
		return SBool, true
	case types.Int8, types.Uint8:
		return BV(8), true
	case types.Int16, types.Uint16:
		return BV(16), true
	case types.Int32, types.Uint32, types.UntypedRune:
		return BV(32), true
	case types.Int, types.Uint, types.Int64, types.Uint64, types.Uintptr, types.UntypedInt:
		return BV(64), true
	case types.Float32:
		return SF32, true
	case types.Float64, types.UntypedFloat:
		return SF64, true
	}
	return Sort{}, false
}

func isSigned(t types.Type) bool {
	b, ok := t.Underlying().(*types.Basic)
	return ok && b.Info()&types.IsUnsigned == 0 && b.Info()&types.IsInteger != 0
}

func isInteger(t types.Type) bool {
	b, ok := t.Underlying().(*types.Basic)
	return ok && b.Info()&types.IsInteger != 0
}

func isFloat(t types.Type) bool {
	b, ok := t.Underlying().(*types.Basic)
	return ok && b.Info()&types.IsFloat != 0
}

func isString(t types.Type) bool {
	b, ok := t.Underlying().(*types.Basic)
	return ok && b.Info()&types.IsString != 0
}

var nilFunc = (*ssa.Function)(nil)

func zero(t types.Type) value {
	switch t := t.(type) {
	case *types.Basic:
		if t.Kind() == types.UntypedNil {
			panic("untyped nil has no zero value")
		}
		if t.Info()&types.IsString != 0 {
			return ""
		}
		if t.Kind() == types.UnsafePointer {
			return (*value)(nil)
		}
		s, ok := sortOfBasic(t)
		if !ok {
			panic(abortPath{"unsupported", "basic type " + t.String()})
		}
		return Const(s, 0)
	case *types.Pointer:
		return (*value)(nil)
	case *types.Array:
		a := make(array, t.Len())
		for i := range a {
			a[i] = zero(t.Elem())
		}
		return a
	case *types.Named:
		return zero(t.Underlying())
	case *types.Alias:
		return zero(types.Unalias(t))
	case *types.Interface:
		return iface{}
	case *types.Slice:
		return []value(nil)
	case *types.Struct:
		s := make(structure, t.NumFields())
		for i := range s {
			s[i] = zero(t.Field(i).Type())
		}
		return s
	case *types.Tuple:
		if t.Len() == 1 {
			return zero(t.At(0).Type())
		}
		s := make(tuple, t.Len())
		for i := range s {
			s[i] = zero(t.At(i).Type())
		}
		return s
	case *types.Chan:
		return (*chanv)(nil)
	case *types.Map:
		return (*Map)(nil)
	case *types.Signature:
		return nilFunc
	}
	panic(fmt.Sprintf("zero: unexpected %T %v", t, t))
}

// copyVal returns a copy of v (structs and arrays are values).
func copyVal(v value) value {
	switch v := v.(type) {
	case structure:
		a := make(structure, len(v))
		for i, f := range v {
			a[i] = copyVal(f)
		}
		return a
	case array:
		a := make(array, len(v))
		for i, f := range v {
			a[i] = copyVal(f)
		}
		return a
	}
	return v
}

// ---- strings ----

func strLen(s value) int {
	switch s := s.(type) {
	case string:
		return len(s)
	case *SymStr:
		return len(s.b)
	}
	panic(fmt.Sprintf("strLen: %T", s))
}

func strBytes(s value) []*Term {
	switch s := s.(type) {
	case string:
		b := make([]*Term, len(s))
		for i := 0; i < len(s); i++ {
			b[i] = byteConst(s[i])
		}
		return b
	case *SymStr:
		return s.b
	}
	panic(fmt.Sprintf("strBytes: %T", s))
}

var byteConsts [256]*Term

func init() {
	for i := range byteConsts {
		byteConsts[i] = Const(BV(8), uint64(i))
	}
}

func byteConst(b byte) *Term { return byteConsts[b] }

// mkStr normalises a byte-term sequence into string or *SymStr.
func mkStr(b []*Term) value {
	for _, t := range b {
		if t.Op != OConst {
			return &SymStr{b: b}
		}
	}
	buf := make([]byte, len(b))
	for i, t := range b {
		buf[i] = byte(t.C)
	}
	return string(buf)
}

func strSlice(s value, lo, hi int) value {
	switch s := s.(type) {
	case string:
		return s[lo:hi]
	case *SymStr:
		return mkStr(s.b[lo:hi:hi])
	}
	panic("strSlice")
}

func strConcat(a, b value) value {
	as, aok := a.(string)
	bs, bok := b.(string)
	if aok && bok {
		return as + bs
	}
	ab, bb := strBytes(a), strBytes(b)
	r := make([]*Term, 0, len(ab)+len(bb))
	r = append(r, ab...)
	r = append(r, bb...)
	return mkStr(r)
}

// ---- type keys (canonical strings for types) ----

type typeKeyer struct{}

func newTypeKeyer() *typeKeyer { return &typeKeyer{} }

func (k *typeKeyer) key(t types.Type) string {
	return types.TypeString(t, func(p *types.Package) string { return p.Path() })
}

func describe(v value) string {
	switch v := v.(type) {
	case *Term:
		if v.Op == OConst {
			switch v.S.K {
			case KBool:
				return fmt.Sprint(v.C != 0)
			case KBV:
				return fmt.Sprintf("%d", v.Int())
			default:
				return fmt.Sprint(v.F64())
			}
		}
		return fmt.Sprintf("<sym %s>", tname(v))
	case string:
		return fmt.Sprintf("%q", v)
	case *SymStr:
		return fmt.Sprintf("<symstr len %d>", len(v.b))
	case iface:
		if v.t == nil {
			return "nil-iface"
		}
		return fmt.Sprintf("iface(%s)", v.t)
	case nil:
		return "nil"
	}
	return fmt.Sprintf("%T", v)
}
