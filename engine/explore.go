package main

// Path exploration: decision prefixes, forking, feasibility queries with model
// reuse, obligations, covers, and the per-harness result record.

import (
	"fmt"
	"os"
	"sort"
	"strings"
	"sync"
	"sync/atomic"
	"time"

	"golang.org/x/tools/go/ssa"
)

type Decision struct {
	Taken  bool
	HasVal bool
	Val    uint64
	Forced bool
}

type WorkItem struct {
	Prefix []Decision
	Model  Model
}

type abortPath struct {
	kind string // unsupported | bound-exceeded | infeasible | solver-unknown
	msg  string
}

type targetPanic struct{ v value }

// NondetRec records one symbolic input, in creation order, for replay vectors.
type NondetRec struct {
	Kind string
	T    *Term // variable (bits)
}

type Violation struct {
	Harness string   `json:"harness"`
	Tag     string   `json:"tag"`
	Kind    string   `json:"kind"` // assert | panic | known
	Known   string   `json:"known,omitempty"`
	Vector  []uint64 `json:"vector"`
	Kinds   []string `json:"kinds"`
	Detail  string   `json:"detail,omitempty"`
	Site    string   `json:"site,omitempty"`
}

type HarnessResult struct {
	Name         string
	Paths        int64
	Completed    int64
	Decisions    int64 // solver-decided symbolic branches
	Obligations  int64
	Discharged   int64
	Violations   []Violation
	KnownHits    map[string]*Violation
	Covers       map[string]*Violation // tag -> witness
	CoverTags    map[string]bool       // all cover tags seen statically reached
	Inconclusive map[string]int        // reason -> count
	Cuts         map[string]int        // deliberate cuts (outside the claim) -> count
	Steps        int64
	Funcs        map[string]bool
	Stubs        map[string]bool
	MaxDepth     int
	Wall         time.Duration
	Samples      []string
	spec         HarnessSpec
	mu           sync.Mutex
}

type Config struct {
	Workers       int
	QueryTimeout  time.Duration
	MaxSteps      int64
	MaxDecisions  int
	MaxPaths      int64
	Verbose       bool
	KnownOpen     map[string]bool // known finding ids that are open
	StopOnViol    bool
	FinalSolvers  []SolverKind // portfolio for obligations that z3 cannot decide
	FinalTimeout  time.Duration
	Deadline      time.Time
	Params        map[string]int
	Primary       solverName
	Vector        []uint64
}

type Engine struct {
	prog      *ssa.Program
	cfg       Config
	intr      map[string]intrinsic
	rtErrType value // types.Type of runtime.errorString (set in load)
	lp        *loaded
	once      sync.Map
}

type Worker struct {
	id     int
	eng    *Engine
	solver *Solver
	prn    *Printer
	epoch  uint32
	finals map[SolverKind]*Solver
}

func (w *Worker) ensureSolver() {
	if w.solver == nil || w.solver.dead {
		if w.solver != nil {
			w.solver.Close()
		}
		kind := SolverCVC5
		if w.eng.cfg.Primary != "" {
			kind = w.eng.cfg.Primary.kind()
		}
		if e := os.Getenv("SYMGO_SOLVER"); e != "" {
			kind = solverName(e).kind()
		}
		s, err := NewSolver(kind, w.eng.cfg.QueryTimeout)
		if err != nil {
			panic(err)
		}
		w.solver = s
	}
}

type Path struct {
	eng  *Engine
	w    *Worker
	res  *HarnessResult
	tc   TermCtx
	item *WorkItem

	prefix    []Decision
	pos       int
	decisions []Decision
	model     Model
	ev        *Evaluator
	evEpoch   uint32
	pending   []*Term // constraints not yet sent to solver
	allPC     []*Term
	npc       int
	sessOpen  bool

	globals   map[*ssa.Global]*value
	initState map[*ssa.Package]int
	nondets   []NondetRec
	steps     int64
	depth     int
	newItems  []*WorkItem
	symDec    int
	harness   string
	curInstr  ssa.Instruction
	curFn     *ssa.Function
	covered   map[string]bool
	log       []string
	pollFired bool
	ufCalls   map[string][][2]*Term
	ufCallsN  map[string][]ufCall
	fnSeen      map[*ssa.Function]bool
	onceDone    map[*value]bool
	fmtDepth    int
	unknowns    int
	stack       []*ssa.Function
	initDepth   int
	pollLimit   int
	pollCount   int
	pollFiredAt int
}

var pathEpoch uint32

func (p *Path) newEval() {
	p.evEpoch = atomic.AddUint32(&evalEpoch, 1)
	p.ev = NewEvaluator(p.model, p.evEpoch)
}

func (p *Path) evalBool(c *Term) bool { return p.ev.Eval(c) != 0 }

// openSession makes sure the worker's solver is in this path's scope.
func (p *Path) openSession() {
	if p.sessOpen {
		return
	}
	w := p.w
	w.ensureSolver()
	w.solver.Send("(reset)\n(set-option :produce-models true)\n")
	w.epoch = atomic.AddUint32(&pathEpoch, 1)
	w.prn = &Printer{epoch: w.epoch}
	p.sessOpen = true
}

func (p *Path) flush() {
	p.openSession()
	w := p.w
	for _, c := range p.pending {
		r := w.prn.Ref(c)
		fmt.Fprintf(&w.prn.sb, "(assert %s)\n", r)
	}
	p.pending = p.pending[:0]
	if w.prn.sb.Len() > 0 {
		w.solver.Send(w.prn.sb.String())
		w.prn.sb.Reset()
	}
}

// assume adds c to the path condition.
func (p *Path) assume(c *Term) {
	if c.IsTrue() {
		return
	}
	if c.IsFalse() {
		panic(abortPath{"infeasible", "assume(false)"})
	}
	p.pending = append(p.pending, c)
	p.npc++
}

// assumeChecked adds c like assume, and keeps the path's model a model of the
// whole path condition: if the current model does not satisfy c a new one is
// asked for (needed when c ties a fresh variable to earlier ones, as the
// functional-consistency constraints of the uninterpreted-function stubs do).
func (p *Path) assumeChecked(c *Term) {
	if c.IsTrue() {
		return
	}
	if c.IsFalse() {
		panic(abortPath{"infeasible", "assume(false)"})
	}
	if p.pos >= len(p.prefix) && !p.evalBool(c) {
		r, m := p.check(c)
		switch r {
		case "sat":
			p.model = m
			p.newEval()
		case "unsat":
			panic(abortPath{"infeasible", "stub constraint"})
		default:
			p.inconclusive("solver-unknown at a stub constraint " + p.where())
		}
	}
	p.assume(c)
}

// check asks whether PC ∧ c is satisfiable; on sat returns a model.
func (p *Path) check(c *Term) (string, Model) {
	if c.IsFalse() {
		return "unsat", nil
	}
	if !p.eng.cfg.Deadline.IsZero() && time.Now().After(p.eng.cfg.Deadline) {
		panic(abortPath{"bound-exceeded", "wall-clock budget (before a solver query) at " + p.where()})
	}
	if p.unknowns >= 3 {
		panic(abortPath{"solver-unknown", "3 undecided queries on one path, last at " + p.where()})
	}
	p.flush()
	w := p.w
	r := w.prn.Ref(c)
	fmt.Fprintf(&w.prn.sb, "(push 1)\n(assert %s)\n", r)
	w.solver.Send(w.prn.sb.String())
	w.prn.sb.Reset()
	tq := time.Now()
	res := w.solver.CheckSat()
	if d := time.Since(tq); d > time.Second && os.Getenv("SYMGO_SLOW") != "" {
		fmt.Fprintf(os.Stderr, "slow query %.1fs -> %s at %s (pc=%d)\n", d.Seconds(), res, p.where(), p.npc)
	}
	var m Model
	if res == "sat" {
		var ok bool
		m, ok = w.solver.GetValues(p.declaredVars())
		if !ok {
			res = "unknown"
		} else {
			m = p.expandModel(m)
		}
	}
	if res == "unknown" {
		p.unknowns++
	}
	w.solver.Send("(pop 1)\n")
	if w.solver.dead {
		// solver died (timeout in cvc5, crash): restart session lazily
		p.sessOpen = false
		p.resend()
	}
	return res, m
}

// declaredVars: variables that have been emitted to the solver in this session.
func (p *Path) declaredVars() []*Term {
	var out []*Term
	for _, v := range p.tc.vars {
		if p.w.prn.isPrinted(v) {
			out = append(out, v)
		}
	}
	return out
}

// expandModel turns values of declaredVars into a full Model indexed by var id.
func (p *Path) expandModel(vals Model) Model {
	m := make(Model, len(p.tc.vars))
	// undeclared variables keep their value from the current model (they are
	// unconstrained by anything sent so far)
	copy(m, p.model)
	i := 0
	for _, v := range p.tc.vars {
		if p.w.prn.isPrinted(v) {
			m[v.C] = vals[i]
			i++
		}
	}
	return m
}

// resend re-establishes the solver session after a solver death.
func (p *Path) resend() {
	// all constraints must be re-sent: we keep them in allPC
	p.pending = append([]*Term{}, p.allPC...)
}

// branch decides a symbolic condition, forking when both sides are feasible.
func (p *Path) branch(c *Term) bool {
	if c.Op == OConst {
		return c.C != 0
	}
	if p.pos < len(p.prefix) {
		d := p.prefix[p.pos]
		p.pos++
		p.decisions = append(p.decisions, d)
		if !d.Forced {
			if d.Taken {
				p.addPC(c)
			} else {
				p.addPC(p.tc.Not(c))
			}
		}
		return d.Taken
	}
	p.symDec++
	if p.symDec > p.eng.cfg.MaxDecisions {
		panic(abortPath{"bound-exceeded", fmt.Sprintf("more than %d symbolic decisions on one path at %s", p.eng.cfg.MaxDecisions, p.where())})
	}
	b := p.evalBool(c)
	var other *Term
	if b {
		other = p.tc.Not(c)
	} else {
		other = c
	}
	res, m := p.check(other)
	if res == "unknown" && len(p.eng.cfg.FinalSolvers) > 0 {
		res, m = p.finalCheck(other)
	}
	atomic.AddInt64(&p.res.Decisions, 1)
	d := Decision{Taken: b}
	switch res {
	case "sat":
		alt := append(append([]Decision{}, p.decisions...), Decision{Taken: !b})
		p.newItems = append(p.newItems, &WorkItem{Prefix: alt, Model: m})
		if b {
			p.addPC(c)
		} else {
			p.addPC(p.tc.Not(c))
		}
	case "unsat":
		d.Forced = true
	default:
		p.inconclusive("solver-unknown at branch " + p.where())
		if b {
			p.addPC(c)
		} else {
			p.addPC(p.tc.Not(c))
		}
	}
	p.decisions = append(p.decisions, d)
	return b
}

func (p *Path) addPC(c *Term) {
	p.allPC = append(p.allPC, c)
	p.assume(c)
}

// concretize forks over the feasible values of t and returns the one chosen on
// this path.
func (p *Path) concretize(t *Term, what string) uint64 {
	for n := 0; ; n++ {
		if t.Op == OConst {
			return t.C
		}
		if n > 300 {
			panic(abortPath{"bound-exceeded", "concretize: more than 300 values for " + what + " at " + p.where()})
		}
		if p.pos < len(p.prefix) {
			d := p.prefix[p.pos]
			p.pos++
			p.decisions = append(p.decisions, d)
			eq := p.tc.Eq(t, Const(t.S, d.Val))
			if d.Taken {
				if !d.Forced {
					p.addPC(eq)
				}
				return d.Val
			}
			p.addPC(p.tc.Not(eq))
			continue
		}
		p.symDec++
		if p.symDec > p.eng.cfg.MaxDecisions {
			panic(abortPath{"bound-exceeded", "too many symbolic decisions (concretize) at " + p.where()})
		}
		v := p.ev.Eval(t)
		eq := p.tc.Eq(t, Const(t.S, v))
		res, m := p.check(p.tc.Not(eq))
		atomic.AddInt64(&p.res.Decisions, 1)
		d := Decision{Taken: true, HasVal: true, Val: v}
		switch res {
		case "sat":
			alt := append(append([]Decision{}, p.decisions...), Decision{Taken: false, HasVal: true, Val: v})
			p.newItems = append(p.newItems, &WorkItem{Prefix: alt, Model: m})
			p.addPC(eq)
		case "unsat":
			d.Forced = true
		default:
			p.inconclusive("solver-unknown at concretize " + p.where())
			p.addPC(eq)
		}
		p.decisions = append(p.decisions, d)
		return v
	}
}

// chooseValue splits on a fresh, otherwise unconstrained variable v < n:
// all n alternatives are enqueued at once (no solver call is needed).
func (p *Path) chooseValue(v *Term, n uint64) uint64 {
	if n == 0 {
		panic(abortPath{"infeasible", "verifChoose(0)"})
	}
	if p.pos < len(p.prefix) {
		d := p.prefix[p.pos]
		p.pos++
		p.decisions = append(p.decisions, d)
		p.addPC(p.tc.Eq(v, Const(v.S, d.Val)))
		return d.Val
	}
	for i := uint64(1); i < n; i++ {
		alt := append(append([]Decision{}, p.decisions...), Decision{Taken: true, HasVal: true, Val: i})
		m := make(Model, len(p.tc.vars))
		copy(m, p.model)
		m[v.C] = i
		p.newItems = append(p.newItems, &WorkItem{Prefix: alt, Model: m})
	}
	for len(p.model) < len(p.tc.vars) {
		p.model = append(p.model, 0)
	}
	p.model[v.C] = 0
	p.newEval()
	p.decisions = append(p.decisions, Decision{Taken: true, HasVal: true, Val: 0})
	p.addPC(p.tc.Eq(v, Const(v.S, 0)))
	return 0
}

func (p *Path) inconclusive(reason string) {
	p.res.mu.Lock()
	p.res.Inconclusive[reason]++
	p.res.mu.Unlock()
}

func (p *Path) where() string {
	if p.curInstr != nil {
		pos := p.eng.prog.Fset.Position(p.curInstr.Pos())
		fn := ""
		if p.curInstr.Parent() != nil {
			fn = p.curInstr.Parent().String()
		}
		if pos.IsValid() {
			return fmt.Sprintf("%s (%s:%d)", fn, shortFile(pos.Filename), pos.Line)
		}
		return fn
	}
	return "?"
}

func shortFile(f string) string {
	if i := strings.LastIndex(f, "/"); i >= 0 {
		j := strings.LastIndex(f[:i], "/")
		if j >= 0 {
			return f[j+1:]
		}
	}
	return f
}

// vector extracts the replay vector from a model.
func (p *Path) vector(m Model) ([]uint64, []string) {
	vec := make([]uint64, len(p.nondets))
	kinds := make([]string, len(p.nondets))
	for i, n := range p.nondets {
		kinds[i] = n.Kind
		if n.T.Op == OConst {
			vec[i] = n.T.C
		} else if int(n.T.C) < len(m) {
			vec[i] = m[n.T.C] & mask(n.T.S.W)
		}
	}
	return vec, kinds
}

// obligation: PC ∧ ¬c must be unsat. Returns after assuming c.
func (p *Path) obligation(c *Term, tag string, kind string, known string) {
	atomic.AddInt64(&p.res.Obligations, 1)
	if c.IsTrue() {
		atomic.AddInt64(&p.res.Discharged, 1)
		return
	}
	neg := p.tc.Not(c)
	var res string
	var m Model
	if c.Op != OConst && !p.evalBool(c) {
		res, m = "sat", p.model
	} else {
		res, m = p.check(neg)
		if res == "unknown" {
			res, m = p.finalCheck(neg)
		}
	}
	switch res {
	case "unsat":
		atomic.AddInt64(&p.res.Discharged, 1)
		p.sample(fmt.Sprintf("obligation %q at %s: unsat under %d path constraints", tag, p.where(), p.npc))
	case "sat":
		vec, kinds := p.vector(m)
		v := Violation{Harness: p.harness, Tag: tag, Kind: kind, Known: known, Vector: vec, Kinds: kinds, Site: p.where()}
		p.res.mu.Lock()
		if known != "" {
			if _, ok := p.res.KnownHits[known]; !ok {
				p.res.KnownHits[known] = &v
			}
		} else {
			p.res.Violations = append(p.res.Violations, v)
		}
		p.res.mu.Unlock()
	default:
		p.inconclusive("solver-unknown at obligation " + tag)
	}
	if c.IsFalse() {
		panic(abortPath{"infeasible", "obligation failed on every input of this path"})
	}
	// continue under the assumption that it holds
	if res == "sat" {
		// need a model for PC ∧ c
		if !p.evalBool(c) {
			r2, m2 := p.check(c)
			if r2 != "sat" {
				panic(abortPath{"infeasible", "no input satisfies the obligation on this path"})
			}
			p.model = m2
			p.newEval()
		}
		p.addPC(c)
	}
}

func (p *Path) sample(s string) {
	p.res.mu.Lock()
	if len(p.res.Samples) < 12 {
		p.res.Samples = append(p.res.Samples, s)
	}
	p.res.mu.Unlock()
}

// finalCheck tries the portfolio solvers on PC ∧ c from scratch.
func (p *Path) finalCheck(c *Term) (string, Model) {
	for _, k := range p.eng.cfg.FinalSolvers {
		s, err := NewSolver(k, p.eng.cfg.FinalTimeout)
		if err != nil {
			continue
		}
		prn := &Printer{epoch: atomic.AddUint32(&pathEpoch, 1), slot: 1}
		for _, pc := range p.allPC {
			r := prn.Ref(pc)
			fmt.Fprintf(&prn.sb, "(assert %s)\n", r)
		}
		r := prn.Ref(c)
		fmt.Fprintf(&prn.sb, "(assert %s)\n", r)
		for _, v := range p.tc.vars {
			prn.Ref(v)
		}
		s.Send(prn.sb.String())
		res := s.CheckSat()
		var m Model
		if res == "sat" {
			vals, ok := s.GetValues(p.tc.vars)
			if ok {
				m = vals
			} else {
				res = "unknown"
			}
		}
		s.Close()
		if res != "unknown" {
			return res, m
		}
	}
	return "unknown", nil
}

func (p *Path) cover(tag string) {
	p.res.mu.Lock()
	_, have := p.res.Covers[tag]
	p.res.mu.Unlock()
	if have {
		return
	}
	vec, kinds := p.vector(p.model)
	v := &Violation{Harness: p.harness, Tag: tag, Kind: "cover", Vector: vec, Kinds: kinds}
	p.res.mu.Lock()
	if _, have := p.res.Covers[tag]; !have {
		p.res.Covers[tag] = v
	}
	p.res.mu.Unlock()
}

// ---- running a harness ----

func (e *Engine) RunHarness(fn *ssa.Function) *HarnessResult {
	res := &HarnessResult{
		Name: fn.Name(), KnownHits: map[string]*Violation{}, Covers: map[string]*Violation{},
		CoverTags: map[string]bool{}, Inconclusive: map[string]int{}, Cuts: map[string]int{}, Funcs: map[string]bool{}, Stubs: map[string]bool{},
	}
	t0 := time.Now()
	var mu sync.Mutex
	cond := sync.NewCond(&mu)
	queue := []*WorkItem{{}}
	active := 0
	done := false
	var wg sync.WaitGroup
	nw := e.cfg.Workers
	if nw < 1 {
		nw = 1
	}
	stopTick := make(chan struct{})
	if e.cfg.Verbose || os.Getenv("SYMGO_PROGRESS") != "" {
		go func() {
			tk := time.NewTicker(10 * time.Second)
			defer tk.Stop()
			for {
				select {
				case <-stopTick:
					return
				case <-tk.C:
					mu.Lock()
					fmt.Fprintf(os.Stderr, "[%s] %.0fs paths=%d queue=%d active=%d decisions=%d\n", fn.Name(), time.Since(t0).Seconds(), atomic.LoadInt64(&res.Paths), len(queue), active, atomic.LoadInt64(&res.Decisions))
					mu.Unlock()
				}
			}
		}()
	}
	defer close(stopTick)
	for i := 0; i < nw; i++ {
		wg.Add(1)
		go func(id int) {
			defer wg.Done()
			w := &Worker{id: id, eng: e}
			defer func() {
				if w.solver != nil {
					w.solver.Close()
				}
			}()
			for {
				mu.Lock()
				for len(queue) == 0 && active > 0 && !done {
					cond.Wait()
				}
				if done || (len(queue) == 0 && active == 0) {
					done = true
					cond.Broadcast()
					mu.Unlock()
					return
				}
				it := queue[len(queue)-1]
				queue = queue[:len(queue)-1]
				active++
				mu.Unlock()

				items := e.runPath(w, fn, it, res)

				mu.Lock()
				active--
				queue = append(queue, items...)
				if e.cfg.MaxPaths > 0 && atomic.LoadInt64(&res.Paths) >= e.cfg.MaxPaths && len(queue) > 0 {
					res.mu.Lock()
					res.Inconclusive[fmt.Sprintf("bound-exceeded: path budget %d", e.cfg.MaxPaths)] += len(queue)
					res.mu.Unlock()
					queue = nil
					done = true
				}
				if !e.cfg.Deadline.IsZero() && time.Now().After(e.cfg.Deadline) && len(queue) > 0 {
					res.mu.Lock()
					res.Inconclusive["bound-exceeded: wall-clock budget"] += len(queue)
					res.mu.Unlock()
					queue = nil
					done = true
				}
				cond.Broadcast()
				mu.Unlock()
			}
		}(i)
	}
	wg.Wait()
	res.Wall = time.Since(t0)
	return res
}

func (e *Engine) runPath(w *Worker, fn *ssa.Function, it *WorkItem, res *HarnessResult) (items []*WorkItem) {
	atomic.AddInt64(&res.Paths, 1)
	p := &Path{eng: e, w: w, res: res, item: it, prefix: it.Prefix, model: it.Model,
		globals: map[*ssa.Global]*value{}, initState: map[*ssa.Package]int{}, harness: fn.Name(), covered: map[string]bool{}}
	p.newEval()
	defer func() {
		r := recover()
		atomic.AddInt64(&res.Steps, p.steps)
		items = p.newItems
		switch r := r.(type) {
		case nil:
			atomic.AddInt64(&res.Completed, 1)
		case abortPath:
			if r.kind == "infeasible" {
				atomic.AddInt64(&res.Completed, 1)
				return
			}
			if r.kind == "cut" {
				res.mu.Lock()
				res.Cuts[r.msg]++
				res.mu.Unlock()
				return
			}
			if e.cfg.Verbose {
				fmt.Fprintf(os.Stderr, "[%s] path aborted: %s: %s\n", fn.Name(), r.kind, r.msg)
			}
			p.inconclusive(r.kind + ": " + r.msg)
		case targetPanic:
			// a Go panic escaped the harness function itself: that is a harness
			// error (harnesses wrap code under test in verifCatch)
			p.inconclusive("harness-panic: " + p.panicString(r.v) + " at " + p.where())
			atomic.AddInt64(&res.Completed, 1)
		default:
			panic(r)
		}
	}()
	p.callFunction(nil, fn, nil, nil)
	if p.pos < len(p.prefix) {
		p.inconclusive("engine: replay did not consume its decision prefix (nondeterminism)")
	}
	return
}

func (p *Path) panicString(v value) string {
	if i, ok := v.(iface); ok {
		if i.t == nil {
			return "nil"
		}
		if s, ok := i.v.(string); ok {
			return fmt.Sprintf("%s(%q)", i.t, s)
		}
		return fmt.Sprintf("%s", i.t)
	}
	return fmt.Sprintf("%T", v)
}

func sortedKeys[V any](m map[string]V) []string {
	var ks []string
	for k := range m {
		ks = append(ks, k)
	}
	sort.Strings(ks)
	return ks
}

type solverName string

func (n solverName) kind() SolverKind {
	switch n {
	case "z3-new":
		return SolverZ3New
	case "cvc5":
		return SolverCVC5
	case "cvc5-int":
		return SolverCVC5Int
	}
	return SolverZ3
}
