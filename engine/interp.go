package main

// The SSA executor: one frame per call, Go recursion for calls, Go panics for
// target panics (after x/tools/go/ssa/interp).

import (
	"fmt"
	"go/constant"
	"go/token"
	"go/types"
	"math"
	"os"
	"sync"
	"time"

	"golang.org/x/tools/go/ssa"
)

type deferred struct {
	fn    value
	args  []value
	instr *ssa.Defer
	tail  *deferred
}

type frame struct {
	p         *Path
	caller    *frame
	fn        *ssa.Function
	info      *fnInfo
	block     *ssa.BasicBlock
	prevBlock *ssa.BasicBlock
	env       []value
	locals    []value
	defers    *deferred
	result    value
	panicking bool
	panicVal  interface{}
	phitemps  []value
}

type fnInfo struct {
	index map[ssa.Value]int
	n     int
}

var fnInfos sync.Map

func infoOf(fn *ssa.Function) *fnInfo {
	if v, ok := fnInfos.Load(fn); ok {
		return v.(*fnInfo)
	}
	fi := &fnInfo{index: map[ssa.Value]int{}}
	add := func(v ssa.Value) {
		fi.index[v] = fi.n
		fi.n++
	}
	for _, p := range fn.Params {
		add(p)
	}
	for _, p := range fn.FreeVars {
		add(p)
	}
	for _, b := range fn.Blocks {
		for _, in := range b.Instrs {
			if v, ok := in.(ssa.Value); ok {
				add(v)
			}
		}
	}
	fnInfos.Store(fn, fi)
	return fi
}

var constCache sync.Map

func constValue(c *ssa.Const) value {
	if v, ok := constCache.Load(c); ok {
		return v
	}
	v := constValue0(c)
	constCache.Store(c, v)
	return v
}

func constValue0(c *ssa.Const) value {
	if c.Value == nil {
		return zero(c.Type())
	}
	t := c.Type().Underlying()
	if b, ok := t.(*types.Basic); ok {
		switch {
		case b.Info()&types.IsString != 0:
			if c.Value.Kind() == constant.String {
				return constant.StringVal(c.Value)
			}
			return string(rune(c.Int64()))
		case b.Info()&types.IsBoolean != 0:
			return Bool(constant.BoolVal(c.Value))
		case b.Info()&types.IsInteger != 0:
			s, _ := sortOfBasic(b)
			if b.Info()&types.IsUnsigned != 0 {
				return Const(s, c.Uint64())
			}
			return Const(s, uint64(c.Int64()))
		case b.Info()&types.IsFloat != 0:
			if b.Kind() == types.Float32 {
				return ConstF32(float32(c.Float64()))
			}
			return ConstF64(c.Float64())
		case b.Kind() == types.UnsafePointer:
			return (*value)(nil)
		}
	}
	panic(abortPath{"unsupported", fmt.Sprintf("constant %v of type %v", c, c.Type())})
}

func (fr *frame) get(key ssa.Value) value {
	switch key := key.(type) {
	case nil:
		return nil
	case *ssa.Function:
		return key
	case *ssa.Builtin:
		return key
	case *ssa.Const:
		return constValue(key)
	case *ssa.Global:
		return fr.p.globalAddr(key)
	}
	if i, ok := fr.info.index[key]; ok {
		return fr.env[i]
	}
	panic(fmt.Sprintf("get: no value for %T: %v", key, key.Name()))
}

func (fr *frame) set(key ssa.Value, v value) {
	fr.env[fr.info.index[key]] = v
}

func (fr *frame) runDefer(d *deferred) {
	var ok bool
	defer func() {
		if !ok {
			r := recover()
			if _, isAbort := r.(abortPath); isAbort {
				panic(r)
			}
			if _, isT := r.(targetPanic); !isT {
				panic(r) // engine bug: propagate
			}
			fr.panicking = true
			fr.panicVal = r
		}
	}()
	fr.p.call(fr, d.fn, d.args, d.instr)
	ok = true
}

func (fr *frame) runDefers() {
	for d := fr.defers; d != nil; d = d.tail {
		fr.runDefer(d)
	}
	fr.defers = nil
	if fr.panicking {
		panic(fr.panicVal)
	}
}

// rtPanic raises a Go run-time error in the target program.
func (p *Path) rtPanic(msg string) {
	if os.Getenv("SYMGO_TRACE_PANIC") != "" {
		fmt.Fprintf(os.Stderr, "rtPanic: %s at %s%s\n", msg, p.where(), p.stackString())
	}
	panic(targetPanic{iface{t: p.eng.lp.rtErrType, v: "runtime error: " + msg}})
}

func (p *Path) unsupported(what string) {
	panic(abortPath{"unsupported", what + " at " + p.where() + p.stackString()})
}

func (p *Path) stackString() string {
	s := " via"
	n := 0
	for i := len(p.stack) - 1; i >= 0 && n < 6; i-- {
		s += " <- " + p.stack[i].Name()
		n++
	}
	return s
}

func (p *Path) step(instr ssa.Instruction) {
	p.steps++
	p.curInstr = instr
	if p.steps&0xffff == 0 && !p.eng.cfg.Deadline.IsZero() && time.Now().After(p.eng.cfg.Deadline) {
		panic(abortPath{"bound-exceeded", "wall-clock budget (inside a path) at " + p.where() + p.stackString()})
	}
	if p.steps > p.eng.cfg.MaxSteps {
		panic(abortPath{"bound-exceeded", fmt.Sprintf("step budget %d exhausted at %s", p.eng.cfg.MaxSteps, p.where())})
	}
}

// asInt returns a concrete Go int for a term, concretizing when symbolic.
func (p *Path) asInt(v value, what string) int64 {
	t := v.(*Term)
	if t.Op == OConst {
		return t.Int()
	}
	return sext(p.concretize(t, what), t.S.W)
}

func (p *Path) visitInstr(fr *frame, instr ssa.Instruction) (ret bool) {
	p.step(instr)
	switch instr := instr.(type) {
	case *ssa.DebugRef:
	case *ssa.UnOp:
		fr.set(instr, p.unop(instr, fr.get(instr.X)))
	case *ssa.BinOp:
		fr.set(instr, p.binop(instr.Op, instr.X.Type(), fr.get(instr.X), fr.get(instr.Y)))
	case *ssa.Call:
		fn, args := p.prepareCall(fr, &instr.Call)
		fr.set(instr, p.call(fr, fn, args, instr))
	case *ssa.ChangeInterface:
		fr.set(instr, fr.get(instr.X))
	case *ssa.ChangeType:
		fr.set(instr, fr.get(instr.X))
	case *ssa.Convert:
		fr.set(instr, p.conv(instr.Type(), instr.X.Type(), fr.get(instr.X)))
	case *ssa.MakeInterface:
		fr.set(instr, iface{t: instr.X.Type(), v: fr.get(instr.X)})
	case *ssa.Extract:
		fr.set(instr, fr.get(instr.Tuple).(tuple)[instr.Index])
	case *ssa.Slice:
		fr.set(instr, p.slice(instr, fr.get(instr.X), fr.get(instr.Low), fr.get(instr.High), fr.get(instr.Max)))
	case *ssa.Return:
		switch len(instr.Results) {
		case 0:
		case 1:
			fr.result = fr.get(instr.Results[0])
		default:
			res := make(tuple, len(instr.Results))
			for i, r := range instr.Results {
				res[i] = fr.get(r)
			}
			fr.result = res
		}
		fr.block = nil
		return true
	case *ssa.RunDefers:
		fr.runDefers()
	case *ssa.Panic:
		panic(targetPanic{fr.get(instr.X)})
	case *ssa.Send:
		p.unsupported("channel send")
	case *ssa.Store:
		p.store(fr.get(instr.Addr), fr.get(instr.Val))
	case *ssa.If:
		c := fr.get(instr.Cond).(*Term)
		succ := 1
		if p.branch(c) {
			succ = 0
		}
		fr.prevBlock, fr.block = fr.block, fr.block.Succs[succ]
		return true
	case *ssa.Jump:
		fr.prevBlock, fr.block = fr.block, fr.block.Succs[0]
		return true
	case *ssa.Defer:
		fn, args := p.prepareCall(fr, &instr.Call)
		defers := &fr.defers
		if instr.DeferStack != nil {
			if into := fr.get(instr.DeferStack); into != nil {
				defers = into.(**deferred)
			}
		}
		*defers = &deferred{fn: fn, args: args, instr: instr, tail: *defers}
	case *ssa.Go:
		p.unsupported("go statement")
	case *ssa.MakeChan:
		fr.set(instr, &chanv{})
	case *ssa.Alloc:
		var addr *value
		if instr.Heap {
			addr = new(value)
			fr.set(instr, addr)
		} else {
			addr = fr.get(instr).(*value)
		}
		*addr = zero(deref(instr.Type()))
	case *ssa.MakeSlice:
		if lt := fr.get(instr.Len).(*Term); lt.Op != OConst {
			// symbolic allocation size: only sizes up to 64 are explored
			if !p.branch(p.tc.Bin(OULe, lt, Const(lt.S, 64))) {
				panic(abortPath{"cut", "allocation with symbolic size > 64 (or negative) at " + p.where()})
			}
		}
		n := p.asInt(fr.get(instr.Len), "make len")
		c := p.asInt(fr.get(instr.Cap), "make cap")
		if n < 0 || c < n {
			p.rtPanic("makeslice: len out of range")
		}
		if c > 1<<24 {
			panic(abortPath{"bound-exceeded", fmt.Sprintf("make([]T, %d) too large at %s", c, p.where())})
		}
		sl := make([]value, c)
		tElt := instr.Type().Underlying().(*types.Slice).Elem()
		z := zero(tElt)
		for i := range sl {
			sl[i] = copyVal(z)
		}
		fr.set(instr, sl[:n])
	case *ssa.MakeMap:
		fr.set(instr, newMap())
	case *ssa.Range:
		fr.set(instr, p.rangeIter(fr.get(instr.X), instr.X.Type()))
	case *ssa.Next:
		fr.set(instr, fr.get(instr.Iter).(iter).next(p))
	case *ssa.FieldAddr:
		x := fr.get(instr.X)
		ptr, ok := x.(*value)
		if !ok {
			p.unsupported(fmt.Sprintf("FieldAddr on %T", x))
		}
		if ptr == nil {
			p.rtPanic("invalid memory address or nil pointer dereference")
		}
		st, isStruct := (*ptr).(structure)
		if !isStruct {
			p.unsupported(fmt.Sprintf("FieldAddr into %T (opaque host value)", *ptr))
		}
		fr.set(instr, &st[instr.Field])
	case *ssa.Field:
		st, isStruct := fr.get(instr.X).(structure)
		if !isStruct {
			p.unsupported(fmt.Sprintf("Field of %T (opaque host value)", fr.get(instr.X)))
		}
		fr.set(instr, copyVal(st[instr.Field]))
	case *ssa.IndexAddr:
		fr.set(instr, p.indexAddr(fr.get(instr.X), fr.get(instr.Index).(*Term), isSigned(instr.Index.Type())))
	case *ssa.Index:
		fr.set(instr, p.index(fr.get(instr.X), fr.get(instr.Index).(*Term), isSigned(instr.Index.Type())))
	case *ssa.Lookup:
		fr.set(instr, p.lookup(instr, fr.get(instr.X), fr.get(instr.Index)))
	case *ssa.MapUpdate:
		m := fr.get(instr.Map).(*Map)
		if m == nil {
			panic(targetPanic{iface{t: p.eng.lp.rtErrType, v: "assignment to entry in nil map"}})
		}
		p.mapInsert(m, fr.get(instr.Key), copyVal(fr.get(instr.Value)))
	case *ssa.TypeAssert:
		fr.set(instr, p.typeAssert(instr, fr.get(instr.X).(iface)))
	case *ssa.MakeClosure:
		bindings := make([]value, len(instr.Bindings))
		for i, b := range instr.Bindings {
			bindings[i] = fr.get(b)
		}
		fr.set(instr, &closure{instr.Fn.(*ssa.Function), bindings})
	case *ssa.Select:
		fr.set(instr, p.selectInstr(fr, instr))
	case *ssa.SliceToArrayPointer:
		p.unsupported("SliceToArrayPointer")
	default:
		panic(fmt.Sprintf("unexpected instruction: %T", instr))
	}
	return false
}

func deref(t types.Type) types.Type {
	if pt, ok := t.Underlying().(*types.Pointer); ok {
		return pt.Elem()
	}
	panic("deref: not a pointer: " + t.String())
}

func (p *Path) prepareCall(fr *frame, call *ssa.CallCommon) (fn value, args []value) {
	v := fr.get(call.Value)
	if call.Method == nil {
		fn = v
	} else {
		recv := v.(iface)
		if recv.t == nil {
			p.rtPanic("invalid memory address or nil pointer dereference")
		}
		if nt, ok := recv.v.(*native); ok {
			fn = &nativeMethod{recv: nt, name: call.Method.Name()}
			_ = nt
		} else {
			f := p.eng.prog.LookupMethod(recv.t, call.Method.Pkg(), call.Method.Name())
			if f == nil {
				panic(fmt.Sprintf("method set for dynamic type %v does not contain %s", recv.t, call.Method))
			}
			fn = f
			args = append(args, recv.v)
		}
	}
	for _, arg := range call.Args {
		args = append(args, fr.get(arg))
	}
	return
}

type nativeMethod struct {
	recv *native
	name string
}

func (p *Path) call(caller *frame, fn value, args []value, site ssa.Instruction) value {
	switch fn := fn.(type) {
	case *ssa.Function:
		if fn == nil {
			p.rtPanic("invalid memory address or nil pointer dereference")
		}
		return p.callFunction(caller, fn, args, nil)
	case *closure:
		return p.callFunction(caller, fn.Fn, args, fn.Env)
	case *ssa.Builtin:
		return p.callBuiltin(caller, fn, args, site)
	case *nativeMethod:
		return p.callNativeMethod(fn, args)
	case *nativeFn:
		return fn.f(p, args)
	}
	panic(fmt.Sprintf("cannot call %T", fn))
}

type nativeFn struct {
	name string
	f    func(p *Path, args []value) value
}

func (p *Path) callFunction(caller *frame, fn *ssa.Function, args []value, env []value) value {
	name := fn.String()
	if caller != nil && p.initDepth > 0 && fn.Synthetic == "package initializer" {
		return nil // dependency initialisers run lazily, on first use of a global
	}
	if in, ok := p.eng.intr[name]; ok {
		if r, handled := in(p, caller, fn, args); handled {
			return r
		}
	}
	if fn.Blocks == nil {
		if syn := fn.Synthetic; syn != "" {
			p.unsupported("synthetic function without body: " + name)
		}
		p.unsupported("function without Go body: " + name)
	}
	if fn.TypeParams().Len() > 0 && len(fn.TypeArgs()) == 0 {
		p.unsupported("uninstantiated generic " + name)
	}
	if !p.seenFn(fn) {
		p.res.mu.Lock()
		p.res.Funcs[name] = true
		p.res.mu.Unlock()
	}
	p.stack = append(p.stack, fn)
	defer func() { p.stack = p.stack[:len(p.stack)-1] }()
	p.depth++
	if p.depth > 3000 {
		panic(abortPath{"bound-exceeded", "Go call depth > 3000 at " + name})
	}
	defer func() { p.depth-- }()
	fi := infoOf(fn)
	fr := &frame{p: p, caller: caller, fn: fn, info: fi, env: make([]value, fi.n)}
	fr.block = fn.Blocks[0]
	fr.locals = make([]value, len(fn.Locals))
	for i, l := range fn.Locals {
		fr.locals[i] = zero(deref(l.Type()))
		fr.set(l, &fr.locals[i])
	}
	for i, prm := range fn.Params {
		fr.set(prm, args[i])
	}
	for i, fv := range fn.FreeVars {
		fr.set(fv, env[i])
	}
	for fr.block != nil {
		p.runFrame(fr)
	}
	return fr.result
}

func (p *Path) seenFn(fn *ssa.Function) bool {
	if p.fnSeen == nil {
		p.fnSeen = map[*ssa.Function]bool{}
	}
	if p.fnSeen[fn] {
		return true
	}
	p.fnSeen[fn] = true
	return false
}

func (p *Path) runFrame(fr *frame) {
	defer func() {
		if fr.block == nil {
			return // normal return
		}
		r := recover()
		if _, ok := r.(targetPanic); !ok {
			panic(r) // abortPath or engine bug
		}
		fr.panicking = true
		fr.panicVal = r
		fr.runDefers()
		// recovered
		fr.block = fr.fn.Recover
		if fr.block == nil {
			// no named results: return zero values
			fr.result = zeroResults(fr.fn)
		}
	}()
	for {
		instrs := fr.block.Instrs
		// phis
		nphi := 0
		for nphi < len(instrs) {
			if _, ok := instrs[nphi].(*ssa.Phi); !ok {
				break
			}
			nphi++
		}
		if nphi > 0 {
			predIndex := -1
			for i, pb := range fr.block.Preds {
				if pb == fr.prevBlock {
					predIndex = i
					break
				}
			}
			fr.phitemps = fr.phitemps[:0]
			for _, phi := range instrs[:nphi] {
				fr.phitemps = append(fr.phitemps, fr.get(phi.(*ssa.Phi).Edges[predIndex]))
			}
			for i, phi := range instrs[:nphi] {
				fr.set(phi.(*ssa.Phi), fr.phitemps[i])
			}
		}
		jumped := false
		for _, instr := range instrs[nphi:] {
			if p.visitInstr(fr, instr) {
				jumped = true
				break
			}
		}
		if fr.block == nil {
			return
		}
		if !jumped {
			panic("block fell through: " + fr.fn.String())
		}
	}
}

func zeroResults(fn *ssa.Function) value {
	res := fn.Signature.Results()
	switch res.Len() {
	case 0:
		return nil
	case 1:
		return zero(res.At(0).Type())
	}
	t := make(tuple, res.Len())
	for i := range t {
		t[i] = zero(res.At(i).Type())
	}
	return t
}

func (p *Path) doRecover(caller *frame) value {
	if caller != nil && !caller.panicking && caller.caller != nil && caller.caller.panicking {
		caller.caller.panicking = false
		pv := caller.caller.panicVal
		caller.caller.panicVal = nil
		if tp, ok := pv.(targetPanic); ok {
			return tp.v
		}
		panic(fmt.Sprintf("unexpected panic type %T in recover", pv))
	}
	return iface{}
}

// ---- memory ----

func (p *Path) load(addr value) value {
	switch a := addr.(type) {
	case *value:
		if a == nil {
			p.rtPanic("invalid memory address or nil pointer dereference")
		}
		return copyVal(*a)
	case *symRef:
		return p.symLoad(a)
	}
	panic(fmt.Sprintf("load from %T", addr))
}

func (p *Path) store(addr value, v value) {
	switch a := addr.(type) {
	case *value:
		if a == nil {
			p.rtPanic("invalid memory address or nil pointer dereference")
		}
		storeInPlace(a, v)
		return
	case *symRef:
		p.symStore(a, v)
		return
	}
	panic(fmt.Sprintf("store to %T", addr))
}

// storeInPlace writes v into the slot, field by field for structs and arrays,
// so that pointers previously taken to fields/elements of the destination stay
// valid and observe the new contents (as in real memory).
func storeInPlace(a *value, v value) {
	switch nv := v.(type) {
	case structure:
		if old, ok := (*a).(structure); ok && len(old) == len(nv) {
			for i := range nv {
				storeInPlace(&old[i], nv[i])
			}
			return
		}
	case array:
		if old, ok := (*a).(array); ok && len(old) == len(nv) {
			for i := range nv {
				storeInPlace(&old[i], nv[i])
			}
			return
		}
	}
	*a = copyVal(v)
}

func (p *Path) symLoad(a *symRef) value {
	ts := make([]*Term, len(a.elems))
	for i, e := range a.elems {
		t, ok := e.(*Term)
		if !ok {
			p.unsupported("symbolic index into non-scalar elements")
		}
		ts[i] = t
	}
	return p.selectTerm(ts, a.idx)
}

// selectTerm builds ts[idx] as an ite chain over runs of equal elements
// (tables such as utf8.first have a dozen runs, not 256 distinct entries).
func (p *Path) selectTerm(ts []*Term, idx *Term) *Term {
	type run struct {
		lo, hi int
		v      *Term
	}
	var runs []run
	same := func(a, b *Term) bool {
		return a == b || (a.Op == OConst && b.Op == OConst && a.C == b.C && a.S == b.S)
	}
	for i, t := range ts {
		if n := len(runs); n > 0 && same(runs[n-1].v, t) {
			runs[n-1].hi = i
			continue
		}
		runs = append(runs, run{i, i, t})
	}
	tc := &p.tc
	r := runs[len(runs)-1].v
	for i := len(runs) - 2; i >= 0; i-- {
		ru := runs[i]
		var c *Term
		if ru.lo == ru.hi {
			c = tc.Eq(idx, Const(idx.S, uint64(ru.lo)))
		} else if ru.lo == 0 {
			c = tc.Bin(OULe, idx, Const(idx.S, uint64(ru.hi)))
		} else {
			c = tc.And(tc.Bin(OULe, Const(idx.S, uint64(ru.lo)), idx), tc.Bin(OULe, idx, Const(idx.S, uint64(ru.hi))))
		}
		r = tc.Ite(c, ru.v, r)
	}
	return r
}

func (p *Path) symStore(a *symRef, v value) {
	nv := v.(*Term)
	for i := range a.elems {
		old := a.elems[i].(*Term)
		a.elems[i] = p.tc.Ite(p.tc.Eq(a.idx, Const(BV(64), uint64(i))), nv, old)
	}
}

// boundsCheck forks on idx in [0,n) and panics on the out-of-range side.
func (p *Path) boundsCheck(idx *Term, n int, signed bool) *Term {
	idx64 := idx
	if idx.S.W < 64 {
		if signed {
			idx64 = p.tc.Sext(idx, 64)
		} else {
			idx64 = p.tc.Zext(idx, 64)
		}
	}
	inb := p.tc.Bin(OULt, idx64, Const(BV(64), uint64(n)))
	if !p.branch(inb) {
		p.rtPanic(fmt.Sprintf("index out of range [%s] with length %d", describe(idx64), n))
	}
	return idx64
}

func allTerms(vs []value) bool {
	for _, v := range vs {
		if _, ok := v.(*Term); !ok {
			return false
		}
	}
	return true
}

func (p *Path) indexAddr(x value, idx *Term, signed bool) value {
	var elems []value
	switch x := x.(type) {
	case []value:
		elems = x
	case *value:
		if x == nil {
			p.rtPanic("invalid memory address or nil pointer dereference")
		}
		elems = (*x).(array)
	default:
		panic(fmt.Sprintf("IndexAddr on %T", x))
	}
	i64 := p.boundsCheck(idx, len(elems), signed)
	if i64.Op == OConst {
		return &elems[i64.C]
	}
	if allTerms(elems) && len(elems) <= 1024 {
		return &symRef{elems: elems, idx: i64}
	}
	i := p.concretize(i64, "index")
	return &elems[i]
}

func (p *Path) index(x value, idx *Term, signed bool) value {
	switch x := x.(type) {
	case array:
		i64 := p.boundsCheck(idx, len(x), signed)
		if i64.Op == OConst {
			return copyVal(x[i64.C])
		}
		if allTerms(x) {
			return p.symLoad(&symRef{elems: x, idx: i64})
		}
		return copyVal(x[p.concretize(i64, "index")])
	case string:
		i64 := p.boundsCheck(idx, len(x), signed)
		if i64.Op == OConst {
			return byteConst(x[i64.C])
		}
		return p.selectByte(strBytes(x), i64)
	case *SymStr:
		i64 := p.boundsCheck(idx, len(x.b), signed)
		if i64.Op == OConst {
			return x.b[i64.C]
		}
		return p.selectByte(x.b, i64)
	}
	panic(fmt.Sprintf("Index on %T", x))
}

func (p *Path) selectByte(b []*Term, i64 *Term) *Term {
	return p.selectTerm(b, i64)
}

func (p *Path) slice(instr *ssa.Slice, x, lo, hi, max value) value {
	var length, capv int
	switch x := x.(type) {
	case string:
		length = len(x)
		capv = length
	case *SymStr:
		length = len(x.b)
		capv = length
	case []value:
		length = len(x)
		capv = cap(x)
	case *value:
		if x == nil {
			p.rtPanic("invalid memory address or nil pointer dereference")
		}
		length = len((*x).(array))
		capv = length
	default:
		panic(fmt.Sprintf("slice of %T", x))
	}
	_, isStr := x.(string)
	if _, ok := x.(*SymStr); ok {
		isStr = true
	}
	// Go checks: 0 <= lo <= hi <= max <= cap (for strings hi <= len)
	l := Const(BV(64), 0)
	h := Const(BV(64), uint64(length))
	var m *Term
	if lo != nil {
		l = p.to64(lo.(*Term), isSigned(instr.Low.Type()))
	}
	if hi != nil {
		h = p.to64(hi.(*Term), isSigned(instr.High.Type()))
	}
	limit := capv
	if isStr {
		limit = length
	}
	if max != nil {
		m = p.to64(max.(*Term), isSigned(instr.Max.Type()))
		if !p.branch(p.tc.Bin(OULe, m, Const(BV(64), uint64(capv)))) {
			p.rtPanic(fmt.Sprintf("slice bounds out of range [::%s] with capacity %d", describe(m), capv))
		}
		if !p.branch(p.tc.Bin(OULe, h, m)) {
			p.rtPanic("slice bounds out of range [:hi:max]")
		}
	} else {
		if !p.branch(p.tc.Bin(OULe, h, Const(BV(64), uint64(limit)))) {
			p.rtPanic(fmt.Sprintf("slice bounds out of range [:%s] with capacity %d", describe(h), limit))
		}
	}
	if !p.branch(p.tc.Bin(OULe, l, h)) {
		p.rtPanic(fmt.Sprintf("slice bounds out of range [%s:%s]", describe(l), describe(h)))
	}
	li := int(p.concretize(l, "slice low"))
	hi2 := int(p.concretize(h, "slice high"))
	switch x := x.(type) {
	case string, *SymStr:
		return strSlice(x, li, hi2)
	case []value:
		if x == nil {
			return []value(nil)
		}
		if m != nil {
			return x[li:hi2:int(p.concretize(m, "slice max"))]
		}
		return x[li:hi2]
	case *value:
		a := (*x).(array)
		if m != nil {
			return []value(a)[li:hi2:int(p.concretize(m, "slice max"))]
		}
		return []value(a)[li:hi2]
	}
	panic("unreachable")
}

func (p *Path) to64(t *Term, signed bool) *Term {
	if t.S.W == 64 {
		return t
	}
	if signed {
		return p.tc.Sext(t, 64)
	}
	return p.tc.Zext(t, 64)
}

// ---- type assertions ----

func (p *Path) typeAssert(instr *ssa.TypeAssert, itf iface) value {
	var v value
	err := ""
	if itf.t == nil {
		err = fmt.Sprintf("interface conversion: interface is nil, not %s", instr.AssertedType)
	} else if idst, ok := instr.AssertedType.Underlying().(*types.Interface); ok {
		v = itf
		err = p.checkInterface(idst, itf)
	} else if types.Identical(itf.t, instr.AssertedType) {
		v = copyVal(itf.v)
	} else {
		err = fmt.Sprintf("interface conversion: interface is %s, not %s", itf.t, instr.AssertedType)
	}
	if err != "" {
		if !instr.CommaOk {
			if os.Getenv("SYMGO_TRACE_PANIC") != "" {
				fmt.Fprintf(os.Stderr, "rtPanic: %s at %s%s\n", err, p.where(), p.stackString())
			}
			panic(targetPanic{iface{t: p.eng.lp.rtErrType, v: err}})
		}
		return tuple{zero(instr.AssertedType), tFalse}
	}
	if instr.CommaOk {
		return tuple{v, tTrue}
	}
	return v
}

func (p *Path) checkInterface(idst *types.Interface, x iface) string {
	if nt, ok := x.v.(*native); ok && nt != nil {
		// opaque host objects: trust the static type recorded with them
		if types.Implements(x.t, idst) {
			return ""
		}
		return fmt.Sprintf("interface conversion: %v is not %v", x.t, idst)
	}
	if meth, _ := types.MissingMethod(x.t, idst, true); meth != nil {
		return fmt.Sprintf("interface conversion: %v is not %v: missing method %s", x.t, idst, meth.Name())
	}
	return ""
}

// ---- builtins ----

func (p *Path) callBuiltin(caller *frame, fn *ssa.Builtin, args []value, site ssa.Instruction) value {
	switch fn.Name() {
	case "append":
		if len(args) == 1 {
			return args[0]
		}
		a0 := args[0].([]value)
		switch s := args[1].(type) {
		case string, *SymStr:
			for _, b := range strBytes(s) {
				a0 = append(a0, b)
			}
			return a0
		case []value:
			for _, e := range s {
				a0 = append(a0, copyVal(e))
			}
			return a0
		}
		panic(fmt.Sprintf("append: %T", args[1]))
	case "copy":
		dst := args[0].([]value)
		switch s := args[1].(type) {
		case string, *SymStr:
			b := strBytes(s)
			n := len(dst)
			if len(b) < n {
				n = len(b)
			}
			for i := 0; i < n; i++ {
				dst[i] = b[i]
			}
			return ConstInt(64, int64(n))
		case []value:
			n := len(dst)
			if len(s) < n {
				n = len(s)
			}
			tmp := make([]value, n)
			for i := 0; i < n; i++ {
				tmp[i] = copyVal(s[i])
			}
			copy(dst, tmp)
			return ConstInt(64, int64(n))
		}
		panic("copy")
	case "close":
		return nil
	case "delete":
		if m := args[0].(*Map); m != nil {
			p.mapDelete(m, args[1])
		}
		return nil
	case "print", "println":
		return nil
	case "len":
		switch x := args[0].(type) {
		case string:
			return ConstInt(64, int64(len(x)))
		case *SymStr:
			return ConstInt(64, int64(len(x.b)))
		case array:
			return ConstInt(64, int64(len(x)))
		case *value:
			return ConstInt(64, int64(len((*x).(array))))
		case []value:
			return ConstInt(64, int64(len(x)))
		case *Map:
			if x == nil {
				return ConstInt(64, 0)
			}
			p.mapSettle(x)
			return ConstInt(64, int64(x.n))
		case *chanv:
			return ConstInt(64, 0)
		}
		panic(fmt.Sprintf("len: %T", args[0]))
	case "cap":
		switch x := args[0].(type) {
		case array:
			return ConstInt(64, int64(len(x)))
		case *value:
			return ConstInt(64, int64(len((*x).(array))))
		case []value:
			return ConstInt(64, int64(cap(x)))
		case *chanv:
			return ConstInt(64, 0)
		}
		panic(fmt.Sprintf("cap: %T", args[0]))
	case "min", "max":
		r := args[0]
		var t types.Type
		if c, ok := site.(*ssa.Call); ok {
			t = c.Type()
		}
		for _, a := range args[1:] {
			var less value
			if fn.Name() == "min" {
				less = p.binop(token.LSS, t, a, r)
			} else {
				less = p.binop(token.GTR, t, a, r)
			}
			lt := less.(*Term)
			if at, ok := a.(*Term); ok {
				rt := r.(*Term)
				if at.S.K == KFP {
					// NaN propagates
					r = p.tc.Ite(p.tc.Un(OFIsNaN, at), at, p.tc.Ite(p.tc.Un(OFIsNaN, rt), rt, p.tc.Ite(lt, at, rt)))
				} else {
					r = p.tc.Ite(lt, at, rt)
				}
			} else {
				if p.branch(lt) {
					r = a
				}
			}
		}
		return r
	case "panic":
		panic(targetPanic{args[0]})
	case "recover":
		return p.doRecover(caller)
	case "ssa:wrapnilchk":
		recv := args[0]
		if ptr, ok := recv.(*value); ok && ptr == nil {
			p.rtPanic("value method called using nil pointer")
		}
		return recv
	case "ssa:deferstack":
		return &caller.defers
	}
	p.unsupported("built-in " + fn.Name())
	return nil
}

// ---- select (only the interrupt-poll pattern) ----

func (p *Path) selectInstr(fr *frame, instr *ssa.Select) value {
	if instr.Blocking || len(instr.States) != 1 || instr.States[0].Dir != types.RecvOnly {
		p.unsupported("select other than a non-blocking single receive")
	}
	ch, _ := fr.get(instr.States[0].Chan).(*chanv)
	elemT := instr.States[0].Chan.Type().Underlying().(*types.Chan).Elem()
	notReady := tuple{ConstInt(64, -1), tFalse, zero(elemT)}
	if ch == nil || !ch.poll {
		return notReady
	}
	ch.polls++
	p.pollCount++
	if ch.fired {
		return notReady
	}
	if p.pollLimit > 0 && ch.polls > p.pollLimit {
		return notReady
	}
	// nondeterministic readiness: a fresh Boolean per poll
	b := p.tc.Var(SBool, fmt.Sprintf("poll%d", ch.polls))
	p.nondets = append(p.nondets, NondetRec{Kind: "poll", T: b})
	if p.branch(b) {
		ch.fired = true
		p.pollFiredAt = ch.polls
		return tuple{ConstInt(64, 0), tTrue, ch.fn}
	}
	return notReady
}

var _ = math.Inf
