package main

import "regexp"

// regexpFormula compiles "r matches s" for a concrete pattern and symbolic
// subject bytes into a Boolean term. (Filled in by regexpf_impl.go.)
func (p *Path) regexpFormula(r *regexp.Regexp, s []*Term) (*Term, bool) {
	return regexpFormulaImpl(p, r, s)
}
