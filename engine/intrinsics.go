package main

// Intercepted functions: the harness primitives (verif*), exact intrinsics for
// assembly-backed library functions, and contract stubs.

import (
	"fmt"
	"go/types"
	"math"
	"regexp"
	"strconv"
	"strings"
	"unicode"

	"golang.org/x/tools/go/ssa"
)

type intrinsic func(p *Path, caller *frame, fn *ssa.Function, args []value) (value, bool)

func (p *Path) stub(name string) {
	p.res.mu.Lock()
	p.res.Stubs[name] = true
	p.res.mu.Unlock()
}

func cstr(v value) (string, bool) {
	s, ok := v.(string)
	return s, ok
}

func cterm(v value) (*Term, bool) {
	t, ok := v.(*Term)
	if !ok || t.Op != OConst {
		return nil, false
	}
	return t, true
}

func goErr(p *Path, msg value) value {
	// an error value of type *errors.errorString
	ep := p.eng.lp.pkgs["errors"]
	t := ep.Type("errorString").Object().Type()
	cell := new(value)
	*cell = structure{msg}
	return iface{t: types.NewPointer(t), v: cell}
}

func registerIntrinsics(e *Engine) {
	in := map[string]intrinsic{}
	e.intr = in

	for _, pk := range []string{"", "/parser", "/ast", "/file", "/token"} {
		registerVerifPrims(in, modPath+pk)
	}

	// ---- math ----
	un := func(op Op) intrinsic {
		return func(p *Path, _ *frame, _ *ssa.Function, a []value) (value, bool) {
			return p.tc.Un(op, a[0].(*Term)), true
		}
	}
	rnd := func(mode int) intrinsic {
		return func(p *Path, _ *frame, _ *ssa.Function, a []value) (value, bool) {
			return p.tc.FRound(a[0].(*Term), mode), true
		}
	}
	in["math.Floor"] = rnd(2)
	in["math.floor"] = rnd(2)
	in["math.Ceil"] = rnd(3)
	in["math.ceil"] = rnd(3)
	in["math.Trunc"] = rnd(1)
	in["math.trunc"] = rnd(1)
	in["math.RoundToEven"] = rnd(0)
	in["math.Sqrt"] = un(OFSqrt)
	in["math.sqrt"] = un(OFSqrt)
	in["math.Abs"] = un(OFAbs)
	in["math.IsNaN"] = un(OFIsNaN)
	in["math.IsInf"] = func(p *Path, _ *frame, _ *ssa.Function, a []value) (value, bool) {
		f := a[0].(*Term)
		sign := a[1].(*Term)
		tc := &p.tc
		pos := tc.Bin(OFLt, ConstF64(math.MaxFloat64), f)
		neg := tc.Bin(OFLt, f, ConstF64(-math.MaxFloat64))
		sPos := tc.Bin(OSLe, ConstInt(64, 0), sign)
		sNeg := tc.Bin(OSLe, sign, ConstInt(64, 0))
		return tc.Or(tc.And(sPos, pos), tc.And(sNeg, neg)), true
	}
	in["math.Float64bits"] = func(p *Path, _ *frame, _ *ssa.Function, a []value) (value, bool) {
		return p.tc.apply(OFPToBits, BV(64), 0, a[0].(*Term)), true
	}
	in["math.Float64frombits"] = func(p *Path, _ *frame, _ *ssa.Function, a []value) (value, bool) {
		return p.tc.apply(OBitsToFP, SF64, 0, a[0].(*Term)), true
	}
	in["math.Float32bits"] = func(p *Path, _ *frame, _ *ssa.Function, a []value) (value, bool) {
		return p.tc.apply(OFPToBits, BV(32), 0, a[0].(*Term)), true
	}
	in["math.Float32frombits"] = func(p *Path, _ *frame, _ *ssa.Function, a []value) (value, bool) {
		return p.tc.apply(OBitsToFP, SF32, 0, a[0].(*Term)), true
	}
	in["math.Signbit"] = func(p *Path, _ *frame, _ *ssa.Function, a []value) (value, bool) {
		f := a[0].(*Term)
		tc := &p.tc
		// sign bit without going through NaN-payload-sensitive bits
		bits := tc.apply(OFPToBits, BV(64), 0, f)
		return tc.Eq(tc.Extract(bits, 63, 63), Const(BV(1), 1)), true
	}
	// transcendental functions: concrete -> native; symbolic -> any double
	havoc1 := func(name string, f func(float64) float64) {
		in["math."+name] = func(p *Path, _ *frame, _ *ssa.Function, a []value) (value, bool) {
			if t, ok := cterm(a[0]); ok {
				return ConstF64(f(t.F64())), true
			}
			p.stub("math." + name)
			return p.ufF64("math."+name, a[0].(*Term)), true
		}
	}
	for n, f := range map[string]func(float64) float64{
		"Acos": math.Acos, "Acosh": math.Acosh, "Asin": math.Asin, "Asinh": math.Asinh, "Atan": math.Atan,
		"Atanh": math.Atanh, "Cbrt": math.Cbrt, "Cos": math.Cos, "Cosh": math.Cosh, "Exp": math.Exp,
		"Expm1": math.Expm1, "Log": math.Log, "Log10": math.Log10, "Log1p": math.Log1p, "Log2": math.Log2,
		"Sin": math.Sin, "Sinh": math.Sinh, "Tan": math.Tan, "Tanh": math.Tanh, "Exp2": math.Exp2,
	} {
		havoc1(n, f)
	}
	in["math.Atan2"] = func(p *Path, _ *frame, _ *ssa.Function, a []value) (value, bool) {
		x, ok1 := cterm(a[0])
		y, ok2 := cterm(a[1])
		if ok1 && ok2 {
			return ConstF64(math.Atan2(x.F64(), y.F64())), true
		}
		return nil, false // Go body: special cases are plain code; atan is stubbed
	}
	maxmin := func(isMax bool) intrinsic {
		return func(p *Path, _ *frame, _ *ssa.Function, a []value) (value, bool) {
			x, y := a[0].(*Term), a[1].(*Term)
			tc := &p.tc
			inf := ConstF64(math.Inf(1))
			if !isMax {
				inf = ConstF64(math.Inf(-1))
			}
			isInf := func(t *Term) *Term {
				if isMax {
					return tc.Bin(OFLt, ConstF64(math.MaxFloat64), t)
				}
				return tc.Bin(OFLt, t, ConstF64(-math.MaxFloat64))
			}
			sign := func(t *Term) *Term {
				return tc.Eq(tc.Extract(tc.apply(OFPToBits, BV(64), 0, t), 63, 63), Const(BV(1), 1))
			}
			var zeros, gen *Term
			if isMax {
				zeros = tc.Ite(sign(x), y, x)
				gen = tc.Ite(tc.Bin(OFLt, y, x), x, y)
			} else {
				zeros = tc.Ite(sign(x), x, y)
				gen = tc.Ite(tc.Bin(OFLt, x, y), x, y)
			}
			bothZero := tc.And(tc.Bin(OFEq, x, ConstF64(0)), tc.Bin(OFEq, y, ConstF64(0)))
			r := tc.Ite(bothZero, zeros, gen)
			r = tc.Ite(tc.Or(tc.Un(OFIsNaN, x), tc.Un(OFIsNaN, y)), ConstF64(math.NaN()), r)
			r = tc.Ite(tc.Or(isInf(x), isInf(y)), inf, r)
			return r, true
		}
	}
	in["math.Max"] = maxmin(true)
	in["math.Min"] = maxmin(false)
	in["math.archMax"] = maxmin(true)
	in["math.archMin"] = maxmin(false)
	// math.Mod(x, y) for a constant power-of-two y is exact in IEEE arithmetic:
	// x - y*trunc(x/y) involves no rounding; sign of a zero result follows x.
	in["math.Mod"] = func(p *Path, _ *frame, _ *ssa.Function, a []value) (value, bool) {
		x := a[0].(*Term)
		y, ok := cterm(a[1])
		if xc, okx := cterm(a[0]); okx && ok {
			return ConstF64(math.Mod(xc.F64(), y.F64())), true
		}
		if !ok {
			p.stub("math.Mod(general)")
			return p.havocF64("math.Mod"), true
		}
		yf := y.F64()
		fr, _ := math.Frexp(yf)
		if !(yf > 0) || fr != 0.5 || math.IsInf(yf, 0) {
			p.stub("math.Mod(general)")
			return p.havocF64("math.Mod"), true
		}
		tc := &p.tc
		q := tc.FRound(tc.Bin(OFMul, x, ConstF64(1/yf)), 1)
		d := tc.Bin(OFSub, x, tc.Bin(OFMul, ConstF64(yf), q))
		bits := tc.apply(OFPToBits, BV(64), 0, x)
		neg := tc.Eq(tc.Extract(bits, 63, 63), Const(BV(1), 1))
		zero := tc.Ite(neg, ConstF64(math.Copysign(0, -1)), ConstF64(0))
		d = tc.Ite(tc.Bin(OFEq, d, ConstF64(0)), zero, d)
		small := tc.Bin(OFLt, tc.Un(OFAbs, x), ConstF64(yf))
		r := tc.Ite(small, x, d)
		bad := tc.Or(tc.Un(OFIsNaN, x), tc.Un(OFIsInf, x))
		return tc.Ite(bad, ConstF64(math.NaN()), r), true
	}
	in["math/rand.Float64"] = func(p *Path, _ *frame, _ *ssa.Function, a []value) (value, bool) {
		p.stub("math/rand.Float64")
		f := p.havocF64("rand.Float64")
		p.assumeChecked(p.tc.And(p.tc.Bin(OFLe, ConstF64(0), f), p.tc.Bin(OFLt, f, ConstF64(1))))
		return f, true
	}

	// ---- sync ----
	nop := func(p *Path, _ *frame, _ *ssa.Function, a []value) (value, bool) { return nil, true }
	for _, n := range []string{"(*sync.Mutex).Lock", "(*sync.Mutex).Unlock", "(*sync.RWMutex).Lock", "(*sync.RWMutex).Unlock",
		"(*sync.RWMutex).RLock", "(*sync.RWMutex).RUnlock", "runtime.Gosched", "runtime.KeepAlive", "runtime.GC",
		"runtime.SetFinalizer", "internal/race.Acquire", "internal/race.Release", "internal/race.ReleaseMerge", "internal/race.Disable", "internal/race.Enable"} {
		in[n] = nop
	}
	in["(*sync.Mutex).TryLock"] = func(p *Path, _ *frame, _ *ssa.Function, a []value) (value, bool) { return tTrue, true }
	in["(*sync.Once).Do"] = func(p *Path, caller *frame, _ *ssa.Function, a []value) (value, bool) {
		key := a[0].(*value)
		if p.onceDone == nil {
			p.onceDone = map[*value]bool{}
		}
		if !p.onceDone[key] {
			p.onceDone[key] = true
			p.call(caller, a[1], nil, nil)
		}
		return nil, true
	}
	// sync/atomic functions on plain cells
	for _, ty := range []string{"Int32", "Int64", "Uint32", "Uint64", "Uintptr", "Pointer"} {
		in["sync/atomic.Load"+ty] = func(p *Path, _ *frame, _ *ssa.Function, a []value) (value, bool) { return p.load(a[0]), true }
		in["sync/atomic.Store"+ty] = func(p *Path, _ *frame, _ *ssa.Function, a []value) (value, bool) {
			p.store(a[0], a[1])
			return nil, true
		}
		in["sync/atomic.Add"+ty] = func(p *Path, _ *frame, _ *ssa.Function, a []value) (value, bool) {
			n := p.tc.Bin(OAdd, p.load(a[0]).(*Term), a[1].(*Term))
			p.store(a[0], n)
			return n, true
		}
		in["sync/atomic.Swap"+ty] = func(p *Path, _ *frame, _ *ssa.Function, a []value) (value, bool) {
			old := p.load(a[0])
			p.store(a[0], a[1])
			return old, true
		}
		in["sync/atomic.CompareAndSwap"+ty] = func(p *Path, _ *frame, f *ssa.Function, a []value) (value, bool) {
			old := p.load(a[0])
			eq := p.equals(f.Signature.Params().At(1).Type(), old, a[1])
			if p.branch(eq) {
				p.store(a[0], a[2])
				return tTrue, true
			}
			return tFalse, true
		}
	}

	// ---- internal/bytealg and friends ----
	in["internal/bytealg.IndexByteString"] = func(p *Path, _ *frame, _ *ssa.Function, a []value) (value, bool) {
		return p.indexByte(strBytes(a[0]), a[1].(*Term)), true
	}
	in["internal/bytealg.IndexByte"] = func(p *Path, _ *frame, _ *ssa.Function, a []value) (value, bool) {
		return p.indexByte(sliceBytes(a[0].([]value)), a[1].(*Term)), true
	}
	in["internal/bytealg.CountString"] = func(p *Path, _ *frame, _ *ssa.Function, a []value) (value, bool) {
		return p.countByte(strBytes(a[0]), a[1].(*Term)), true
	}
	in["internal/bytealg.Count"] = func(p *Path, _ *frame, _ *ssa.Function, a []value) (value, bool) {
		return p.countByte(sliceBytes(a[0].([]value)), a[1].(*Term)), true
	}
	in["internal/bytealg.Equal"] = func(p *Path, _ *frame, _ *ssa.Function, a []value) (value, bool) {
		return p.strEq(mkStr(sliceBytes(a[0].([]value))), mkStr(sliceBytes(a[1].([]value)))), true
	}
	in["bytes.Equal"] = in["internal/bytealg.Equal"]
	in["internal/bytealg.Compare"] = func(p *Path, _ *frame, _ *ssa.Function, a []value) (value, bool) {
		x, y := mkStr(sliceBytes(a[0].([]value))), mkStr(sliceBytes(a[1].([]value)))
		return p.compareStr(x, y), true
	}
	in["internal/bytealg.CompareString"] = func(p *Path, _ *frame, _ *ssa.Function, a []value) (value, bool) {
		return p.compareStr(a[0], a[1]), true
	}
	in["strings.Compare"] = in["internal/bytealg.CompareString"]
	in["internal/stringslite.Index"] = nil
	delete(in, "internal/stringslite.Index")
	idxStr := func(p *Path, _ *frame, _ *ssa.Function, a []value) (value, bool) {
		return p.indexString(strBytes(a[0]), strBytes(a[1])), true
	}
	in["internal/bytealg.IndexString"] = idxStr
	in["strings.Index"] = idxStr
	in["internal/stringslite.Index"] = idxStr
	in["internal/bytealg.Index"] = func(p *Path, _ *frame, _ *ssa.Function, a []value) (value, bool) {
		return p.indexString(sliceBytes(a[0].([]value)), sliceBytes(a[1].([]value))), true
	}
	in["bytes.Index"] = in["internal/bytealg.Index"]
	in["internal/bytealg.MakeNoZero"] = func(p *Path, _ *frame, _ *ssa.Function, a []value) (value, bool) {
		n := p.asInt(a[0], "MakeNoZero")
		s := make([]value, n)
		for i := range s {
			s[i] = byteConst(0)
		}
		return s, true
	}
	// strings.Builder (uses unsafe): model as the byte slice it wraps
	in["(*strings.Builder).copyCheck"] = nop
	in["(*strings.Builder).String"] = func(p *Path, _ *frame, _ *ssa.Function, a []value) (value, bool) {
		b := (*a[0].(*value)).(structure)
		buf := b[1].([]value)
		return mkStr(sliceBytes(buf)), true
	}
	in["internal/abi.NoEscape"] = func(p *Path, _ *frame, _ *ssa.Function, a []value) (value, bool) { return a[0], true }
	in["internal/abi.Escape"] = func(p *Path, _ *frame, _ *ssa.Function, a []value) (value, bool) { return a[0], true }

	ident := func(p *Path, _ *frame, _ *ssa.Function, a []value) (value, bool) { return a[0], true }
	in["internal/stringslite.Clone"] = ident
	in["strings.Clone"] = ident

	// ---- unicode ----
	registerUnicode(in)

	// ---- errors ----
	// errors.As(err, &target) for a target of concrete pointer type: the first
	// error in the Unwrap chain whose dynamic type is the target's type.
	in["errors.As"] = func(p *Path, fr *frame, _ *ssa.Function, a []value) (value, bool) {
		err := a[0].(iface)
		tgt := a[1].(iface)
		pt, ok := tgt.t.(*types.Pointer)
		if !ok {
			return nil, false
		}
		want := pt.Elem()
		if _, isIface := want.Underlying().(*types.Interface); isIface {
			return nil, false
		}
		for depth := 0; depth < 10; depth++ {
			if err.t == nil {
				return tFalse, true
			}
			if types.Identical(err.t, want) {
				p.store(tgt.v, err.v)
				return tTrue, true
			}
			m := p.findMethod(err.t, "Unwrap")
			if m == nil {
				return tFalse, true
			}
			next, isIface := p.callFunction(fr, m, []value{err.v}, nil).(iface)
			if !isIface {
				return nil, false
			}
			err = next
		}
		return tFalse, true
	}
	in["errors.Is"] = func(p *Path, _ *frame, _ *ssa.Function, a []value) (value, bool) {
		err := a[0].(iface)
		target := a[1].(iface)
		for depth := 0; depth < 10; depth++ {
			if err.t == nil {
				return Bool(target.t == nil), true
			}
			if target.t != nil && types.Identical(err.t, target.t) && types.Comparable(err.t) {
				if p.branch(p.equals(err.t, err.v, target.v)) {
					return tTrue, true
				}
			}
			m := p.findMethod(err.t, "Unwrap")
			if m == nil {
				return tFalse, true
			}
			if m.Signature.Results().Len() != 1 {
				return tFalse, true
			}
			r := p.callFunction(nil, m, []value{err.v}, nil)
			ni, ok := r.(iface)
			if !ok {
				return tFalse, true
			}
			err = ni
		}
		return tFalse, true
	}

	// ---- fmt ----
	fmtS := func(name string, fmtIdx int) intrinsic {
		return func(p *Path, _ *frame, _ *ssa.Function, a []value) (value, bool) {
			var format string
			var rest []value
			if fmtIdx >= 0 {
				f, ok := cstr(a[fmtIdx])
				if !ok {
					p.stub(name)
					return "<fmt>", true
				}
				format = f
				rest = a[fmtIdx+1].([]value)
			} else {
				rest = a[0].([]value)
			}
			// only %s / %v verbs and every non-concrete argument a string: the
			// result is an exact (symbolic) concatenation
			if fmtIdx >= 0 {
				if out, ok := sprintfStrings(p, format, rest); ok {
					return out, true
				}
			}
			gargs := make([]interface{}, len(rest))
			allOK := true
			for i, r := range rest {
				g, ok := p.toGo(r)
				if !ok {
					allOK = false
					g = "<sym>"
				}
				gargs[i] = g
			}
			if !allOK {
				p.stub(name)
			}
			if fmtIdx >= 0 {
				return fmt.Sprintf(format, gargs...), true
			}
			return fmt.Sprint(gargs...), true
		}
	}
	in["fmt.Sprintf"] = fmtS("fmt.Sprintf", 0)
	in["fmt.Sprint"] = fmtS("fmt.Sprint", -1)
	in["fmt.Errorf"] = func(p *Path, c *frame, f *ssa.Function, a []value) (value, bool) {
		s, _ := fmtS("fmt.Errorf", 0)(p, c, f, a)
		return goErr(p, s), true
	}
	in["fmt.Fprintf"] = func(p *Path, _ *frame, _ *ssa.Function, a []value) (value, bool) {
		return tuple{ConstInt(64, 0), iface{}}, true
	}
	in["fmt.Fprintln"] = in["fmt.Fprintf"]
	in["fmt.Fprint"] = in["fmt.Fprintf"]
	in["fmt.Println"] = in["fmt.Fprintf"]
	in["fmt.Printf"] = in["fmt.Fprintf"]

	// ---- strconv (value half / formatting) ----
	in["strconv.FormatFloat"] = func(p *Path, _ *frame, _ *ssa.Function, a []value) (value, bool) {
		f, ok1 := cterm(a[0])
		ft, ok2 := cterm(a[1])
		prec, ok3 := cterm(a[2])
		bs, ok4 := cterm(a[3])
		if ok1 && ok2 && ok3 && ok4 {
			return strconv.FormatFloat(f.F64(), byte(ft.C), int(prec.Int()), int(bs.Int())), true
		}
		p.stub("strconv.FormatFloat")
		if ok2 && ok3 {
			// digits are not modelled; keep format and precision visible so that
			// two different formatting requests are not mistaken for one another
			return fmt.Sprintf("<float/%c/%d>", byte(ft.C), int(prec.Int())), true
		}
		return "<float>", true
	}
	in["strconv.ParseFloat"] = func(p *Path, _ *frame, fn *ssa.Function, a []value) (value, bool) {
		s, ok1 := cstr(a[0])
		bs, ok2 := cterm(a[1])
		if ok1 && ok2 {
			f, err := strconv.ParseFloat(s, int(bs.Int()))
			return tuple{ConstF64(f), p.numError(err)}, true
		}
		return nil, false // run the real acceptance code; value half is stubbed below
	}
	// value half of ParseFloat: any non-NaN double (exactness not claimed)
	in["strconv.eiselLemire64"] = func(p *Path, _ *frame, _ *ssa.Function, a []value) (value, bool) {
		p.stub("strconv.eiselLemire64(value half of ParseFloat)")
		f := p.havocF64("ParseFloat.value")
		p.assumeChecked(p.tc.Not(p.tc.Un(OFIsNaN, f)))
		// sign is determined by the caller's neg flag
		neg := a[2].(*Term)
		bits := p.tc.apply(OFPToBits, BV(64), 0, f)
		sb := p.tc.Eq(p.tc.Extract(bits, 63, 63), Const(BV(1), 1))
		p.assumeChecked(p.tc.Eq(sb, neg))
		return tuple{f, tTrue}, true
	}

	// ---- golang.org/x/text (locale printing): opaque ----
	in["golang.org/x/text/language.MustParse"] = func(p *Path, _ *frame, fn *ssa.Function, a []value) (value, bool) {
		p.stub("golang.org/x/text/language.MustParse")
		if s, ok := cstr(a[0]); ok {
			if _, err := xlanguageParse(s); err != nil {
				panic(targetPanic{goErr(p, "language: tag is not well-formed")})
			}
		} else if p.branch(p.tc.Var(SBool, "language.MustParse.fails")) {
			panic(targetPanic{goErr(p, "language: tag is not well-formed")})
		}
		return zero(fn.Signature.Results().At(0).Type()), true
	}
	in["golang.org/x/text/language.Parse"] = func(p *Path, _ *frame, fn *ssa.Function, a []value) (value, bool) {
		p.stub("golang.org/x/text/language.Parse")
		tag := zero(fn.Signature.Results().At(0).Type())
		fails := false
		if s, ok := cstr(a[0]); ok {
			_, err := xlanguageParse(s)
			fails = err != nil
		} else {
			fails = p.branch(p.tc.Var(SBool, "language.Parse.fails"))
		}
		if fails {
			return tuple{tag, goErr(p, "language: tag is not well-formed")}, true
		}
		return tuple{tag, iface{}}, true
	}
	in["golang.org/x/text/message.NewPrinter"] = func(p *Path, _ *frame, fn *ssa.Function, a []value) (value, bool) {
		p.stub("golang.org/x/text/message.NewPrinter")
		return (*value)(nil), true
	}
	in["(*golang.org/x/text/message.Printer).Sprintf"] = func(p *Path, _ *frame, fn *ssa.Function, a []value) (value, bool) {
		p.stub("golang.org/x/text/message.Printer.Sprintf")
		return "<locale-formatted>", true
	}

	// ---- regexp / reflect ----
	registerRegexp(in)
	registerReflect(in)

	// ---- time / runtime ----
	in["time.Now"] = func(p *Path, _ *frame, fn *ssa.Function, a []value) (value, bool) {
		p.stub("time.Now")
		return nil, false
	}
	// time.Date with a symbolic field: an uninterpreted function of its seven
	// integer arguments (functional consistency between the calls on a path),
	// so that two computations agree iff they hand time.Date the same fields.
	// With all fields concrete the real code runs.
	in["time.Date"] = func(p *Path, _ *frame, fn *ssa.Function, a []value) (value, bool) {
		args := make([]*Term, 7)
		allConcrete := true
		for i := 0; i < 7; i++ {
			t, ok := a[i].(*Term)
			if !ok {
				return nil, false
			}
			args[i] = t
			if t.Op != OConst {
				allConcrete = false
			}
		}
		if allConcrete {
			return nil, false
		}
		p.stub("time.Date (uninterpreted function of its fields when a field is symbolic)")
		wall := p.ufBV("time.Date.wall", args)
		ext := p.ufBV("time.Date.ext", args)
		// no monotonic reading: the top bit of wall is clear, as for every Date result
		p.assumeChecked(p.tc.Eq(p.tc.Extract(wall, 63, 63), Const(BV(1), 0)))
		return structure{wall, ext, a[7]}, true
	}
	// the instant of a Time built by the stub above, as an uninterpreted function of it
	in["(time.Time).UnixMilli"] = func(p *Path, _ *frame, fn *ssa.Function, a []value) (value, bool) {
		st, ok := a[0].(structure)
		if !ok || len(st) < 2 {
			return nil, false
		}
		w, ok1 := st[0].(*Term)
		e, ok2 := st[1].(*Term)
		if !ok1 || !ok2 || (w.Op == OConst && e.Op == OConst) {
			return nil, false
		}
		p.stub("(time.Time).UnixMilli (uninterpreted function of a symbolic Time)")
		return p.ufBV("time.Time.UnixMilli", []*Term{w, e}), true
	}
	in["time.now"] = func(p *Path, _ *frame, fn *ssa.Function, a []value) (value, bool) {
		p.stub("time.now")
		return tuple{ConstInt(64, 1700000000), ConstInt(32, 0), ConstInt(64, 1)}, true
	}
	in["time.runtimeNano"] = func(p *Path, _ *frame, fn *ssa.Function, a []value) (value, bool) {
		return ConstInt(64, 1), true
	}
	in["runtime.Caller"] = func(p *Path, _ *frame, fn *ssa.Function, a []value) (value, bool) {
		p.stub("runtime.Caller")
		return tuple{Const(BV(64), 0), "<file>", ConstInt(64, 0), tFalse}, true
	}
	in["os.Getenv"] = func(p *Path, _ *frame, fn *ssa.Function, a []value) (value, bool) { return "", true }
	// the process environment is empty-valued: in particular TZ="" makes
	// time.Local UTC (time.initLocal); native replays run with TZ= as well
	in["syscall.Getenv"] = func(p *Path, _ *frame, fn *ssa.Function, a []value) (value, bool) {
		p.stub("syscall.Getenv (every variable set to \"\"; TZ=\"\" => time.Local is UTC)")
		return tuple{"", tTrue}, true
	}
}

func (p *Path) numError(err error) value {
	if err == nil {
		return iface{}
	}
	// *strconv.NumError{Func, Num string; Err error}
	sp := p.eng.lp.pkgs["strconv"]
	t := sp.Type("NumError").Object().Type()
	ne := err.(*strconv.NumError)
	var inner value
	var g *ssa.Global
	if ne.Err == strconv.ErrRange {
		g = sp.Var("ErrRange")
	} else {
		g = sp.Var("ErrSyntax")
	}
	inner = *p.globalAddr(g)
	cell := new(value)
	*cell = structure{ne.Func, ne.Num, inner}
	return iface{t: types.NewPointer(t), v: cell}
}

// ufF64 models an unknown but deterministic function of one double: a fresh
// result per call, tied to the results of earlier calls on this path by
// functional consistency (equal argument bits => equal result bits).
func (p *Path) ufF64(name string, arg *Term) *Term {
	if p.ufCalls == nil {
		p.ufCalls = map[string][][2]*Term{}
	}
	for _, c := range p.ufCalls[name] {
		if c[0] == arg {
			return c[1]
		}
	}
	tc := &p.tc
	res := p.havocF64(name)
	ab := tc.apply(OFPToBits, BV(64), 0, arg)
	rb := tc.apply(OFPToBits, BV(64), 0, res)
	for _, c := range p.ufCalls[name] {
		cb := tc.apply(OFPToBits, BV(64), 0, c[0])
		crb := tc.apply(OFPToBits, BV(64), 0, c[1])
		p.assumeChecked(tc.Or(tc.Not(tc.Eq(ab, cb)), tc.Eq(rb, crb)))
	}
	p.ufCalls[name] = append(p.ufCalls[name], [2]*Term{arg, res})
	return res
}

// ufBV: an unknown but deterministic 64-bit function of integer arguments.
func (p *Path) ufBV(name string, args []*Term) *Term {
	if p.ufCallsN == nil {
		p.ufCallsN = map[string][]ufCall{}
	}
	tc := &p.tc
	res := tc.Var(BV(64), name)
	for _, c := range p.ufCallsN[name] {
		same := tTrue
		for i := range args {
			same = tc.And(same, tc.Eq(args[i], c.args[i]))
		}
		p.assumeChecked(tc.Or(tc.Not(same), tc.Eq(res, c.res)))
	}
	p.ufCallsN[name] = append(p.ufCallsN[name], ufCall{args, res})
	return res
}

type ufCall struct {
	args []*Term
	res  *Term
}

func (p *Path) havocF64(name string) *Term {
	b := p.tc.Var(BV(64), name)
	return p.tc.apply(OBitsToFP, SF64, 0, b)
}

func sliceBytes(s []value) []*Term {
	b := make([]*Term, len(s))
	for i, e := range s {
		b[i] = e.(*Term)
	}
	return b
}

func (p *Path) indexByte(b []*Term, c *Term) value {
	for i, x := range b {
		if p.branch(p.tc.Eq(x, c)) {
			return ConstInt(64, int64(i))
		}
	}
	return ConstInt(64, -1)
}

func (p *Path) countByte(b []*Term, c *Term) value {
	n := ConstInt(64, 0)
	for _, x := range b {
		n = p.tc.Bin(OAdd, n, p.tc.BoolToBV(p.tc.Eq(x, c), 64))
	}
	return n
}

func (p *Path) indexString(s, sub []*Term) value {
	for i := 0; i+len(sub) <= len(s); i++ {
		eq := tTrue
		for j := range sub {
			eq = p.tc.And(eq, p.tc.Eq(s[i+j], sub[j]))
		}
		if p.branch(eq) {
			return ConstInt(64, int64(i))
		}
	}
	return ConstInt(64, -1)
}

func (p *Path) compareStr(x, y value) value {
	lt := p.strLess(x, y)
	gt := p.strLess(y, x)
	return p.tc.Ite(lt, ConstInt(64, -1), p.tc.Ite(gt, ConstInt(64, 1), ConstInt(64, 0)))
}

// toGo converts a concrete engine value to a Go value for fmt.
func (p *Path) toGo(v value) (interface{}, bool) {
	switch v := v.(type) {
	case iface:
		if v.t == nil {
			return nil, true
		}
		return p.toGoTyped(v.t, v.v)
	case string:
		return v, true
	case *Term:
		if v.Op != OConst {
			return nil, false
		}
		switch v.S.K {
		case KBool:
			return v.C != 0, true
		case KFP:
			return v.F64(), true
		}
		return v.Int(), true
	}
	return nil, false
}

func (p *Path) toGoTyped(t types.Type, v value) (interface{}, bool) {
	if n, ok := v.(*native); ok {
		if n != nil {
			if h, ok := n.v.(*rtypeH); ok {
				return h.t.String(), true
			}
		}
		return "<host object>", true
	}
	if _, ok := v.(*rval); ok {
		return "<reflect.Value>", true
	}
	switch v := v.(type) {
	case string:
		return v, true
	case *SymStr:
		return nil, false
	case *Term:
		if v.Op != OConst {
			return nil, false
		}
		b, ok := t.Underlying().(*types.Basic)
		if !ok {
			return nil, false
		}
		switch b.Kind() {
		case types.Bool:
			return v.C != 0, true
		case types.Int:
			return int(v.Int()), true
		case types.Int8:
			return int8(v.Int()), true
		case types.Int16:
			return int16(v.Int()), true
		case types.Int32:
			return int32(v.Int()), true
		case types.Int64:
			return v.Int(), true
		case types.Uint:
			return uint(v.C), true
		case types.Uint8:
			return uint8(v.C), true
		case types.Uint16:
			return uint16(v.C), true
		case types.Uint32:
			return uint32(v.C), true
		case types.Uint64, types.Uintptr:
			return v.C, true
		case types.Float32:
			return float32(v.F64()), true
		case types.Float64:
			return v.F64(), true
		}
	}
	// errors / Stringers: try Error() / String() methods when concrete
	for _, mname := range []string{"Error", "String"} {
		if m := p.findMethod(t, mname); m != nil && m.Signature.Params().Len() == 0 && m.Signature.Results().Len() == 1 && isString(m.Signature.Results().At(0).Type()) {
			if p.fmtDepth > 2 {
				return "<nested>", true
			}
			p.fmtDepth++
			var out value
			func() {
				defer func() {
					p.fmtDepth--
					if r := recover(); r != nil {
						if _, ok := r.(targetPanic); ok {
							out = "<panic in " + mname + ">"
							return
						}
						panic(r)
					}
				}()
				out = p.callFunction(nil, m, []value{v}, nil)
			}()
			if s, ok := out.(string); ok {
				return s, true
			}
			return nil, false
		}
	}
	return fmt.Sprintf("<%s>", t.String()), true
}

// ---- verif primitives ----

func registerVerifPrims(in map[string]intrinsic, pkg string) {
	nondet := func(kind string, s Sort, fp bool) intrinsic {
		return func(p *Path, _ *frame, _ *ssa.Function, a []value) (value, bool) {
			if cv, ok := p.nextConcrete(); ok {
				c := Const(BV(s.W), cv)
				if s.K == KBool {
					c = Bool(cv&1 != 0)
				}
				p.nondets = append(p.nondets, NondetRec{Kind: kind, T: c})
				if fp {
					return p.tc.apply(OBitsToFP, s, 0, c), true
				}
				return c, true
			}
			v := p.tc.Var(BV(s.W), fmt.Sprintf("%s_%d", kind, len(p.nondets)))
			if s.K == KBool {
				v = p.tc.Var(SBool, fmt.Sprintf("%s_%d", kind, len(p.nondets)))
			}
			p.nondets = append(p.nondets, NondetRec{Kind: kind, T: v})
			if fp {
				return p.tc.apply(OBitsToFP, s, 0, v), true
			}
			return v, true
		}
	}
	in[pkg+".verifNondetBool"] = nondet("bool", SBool, false)
	in[pkg+".verifNondetInt8"] = nondet("i8", BV(8), false)
	in[pkg+".verifNondetInt16"] = nondet("i16", BV(16), false)
	in[pkg+".verifNondetInt32"] = nondet("i32", BV(32), false)
	in[pkg+".verifNondetInt64"] = nondet("i64", BV(64), false)
	in[pkg+".verifNondetInt"] = nondet("int", BV(64), false)
	in[pkg+".verifNondetUint8"] = nondet("u8", BV(8), false)
	in[pkg+".verifNondetUint16"] = nondet("u16", BV(16), false)
	in[pkg+".verifNondetUint32"] = nondet("u32", BV(32), false)
	in[pkg+".verifNondetUint64"] = nondet("u64", BV(64), false)
	in[pkg+".verifNondetUint"] = nondet("uint", BV(64), false)
	in[pkg+".verifNondetFloat64"] = nondet("f64", SF64, true)
	in[pkg+".verifNondetFloat32"] = nondet("f32", SF32, true)
	in[pkg+".verifNondetString"] = func(p *Path, _ *frame, _ *ssa.Function, a []value) (value, bool) {
		n := int(p.asInt(a[0], "nondet string length"))
		b := make([]*Term, n)
		for i := range b {
			if cv, ok := p.nextConcrete(); ok {
				b[i] = byteConst(byte(cv))
				p.nondets = append(p.nondets, NondetRec{Kind: "u8", T: b[i]})
				continue
			}
			v := p.tc.Var(BV(8), fmt.Sprintf("sb_%d", len(p.nondets)))
			p.nondets = append(p.nondets, NondetRec{Kind: "u8", T: v})
			b[i] = v
		}
		return mkStr(b), true
	}
	in[pkg+".verifNondetBytes"] = func(p *Path, _ *frame, _ *ssa.Function, a []value) (value, bool) {
		n := int(p.asInt(a[0], "nondet bytes length"))
		b := make([]value, n)
		for i := range b {
			if cv, ok := p.nextConcrete(); ok {
				b[i] = byteConst(byte(cv))
				p.nondets = append(p.nondets, NondetRec{Kind: "u8", T: byteConst(byte(cv))})
				continue
			}
			v := p.tc.Var(BV(8), fmt.Sprintf("bb_%d", len(p.nondets)))
			p.nondets = append(p.nondets, NondetRec{Kind: "u8", T: v})
			b[i] = v
		}
		return b, true
	}
	in[pkg+".verifChoose"] = func(p *Path, _ *frame, _ *ssa.Function, a []value) (value, bool) {
		n := p.asInt(a[0], "verifChoose bound")
		if cv, ok := p.nextConcrete(); ok {
			p.nondets = append(p.nondets, NondetRec{Kind: "int", T: Const(BV(64), cv)})
			return ConstInt(64, int64(cv)), true
		}
		v := p.tc.Var(BV(64), fmt.Sprintf("choose_%d", len(p.nondets)))
		p.nondets = append(p.nondets, NondetRec{Kind: "int", T: v})
		p.addPC(p.tc.Bin(OULt, v, Const(BV(64), uint64(n))))
		return ConstInt(64, int64(p.chooseValue(v, uint64(n)))), true
	}
	in[pkg+".verifAssume"] = func(p *Path, _ *frame, _ *ssa.Function, a []value) (value, bool) {
		c := a[0].(*Term)
		if c.IsTrue() {
			return nil, true
		}
		if c.IsFalse() {
			panic(abortPath{"infeasible", "assume"})
		}
		if !p.evalBool(c) {
			r, m := p.check(c)
			switch r {
			case "sat":
				p.model = m
				p.newEval()
			case "unsat":
				panic(abortPath{"infeasible", "assume"})
			default:
				panic(abortPath{"solver-unknown", "assume at " + p.where()})
			}
		}
		p.addPC(c)
		return nil, true
	}
	in[pkg+".verifAssert"] = func(p *Path, _ *frame, _ *ssa.Function, a []value) (value, bool) {
		tag, _ := cstr(a[1])
		p.obligation(a[0].(*Term), tag, "assert", "")
		return nil, true
	}
	// verifAssertK(ok, knownID, region, tag): ok must hold outside region;
	// inside region a failure is the recorded known finding knownID.
	in[pkg+".verifAssertK"] = func(p *Path, _ *frame, _ *ssa.Function, a []value) (value, bool) {
		ok := a[0].(*Term)
		id, _ := cstr(a[1])
		region := a[2].(*Term)
		tag, _ := cstr(a[3])
		tc := &p.tc
		if p.eng.cfg.KnownOpen[id] {
			// failures inside the region: reported as KNOWN-FINDING
			atomic := tc.And(tc.Not(ok), region)
			if !atomic.IsFalse() {
				var res string
				var m Model
				if p.evalBool(atomic) {
					res, m = "sat", p.model
				} else {
					res, m = p.check(atomic)
				}
				if res == "sat" {
					vec, kinds := p.vector(m)
					v := &Violation{Harness: p.harness, Tag: tag, Kind: "known", Known: id, Vector: vec, Kinds: kinds, Site: p.where()}
					p.res.mu.Lock()
					if _, have := p.res.KnownHits[id]; !have {
						p.res.KnownHits[id] = v
					}
					p.res.mu.Unlock()
				}
			}
			p.obligation(tc.Or(ok, region), tag, "assert", "")
			// continue only where ok really holds
			if !p.branchAssume(ok) {
				panic(abortPath{"infeasible", "known-finding region only"})
			}
		} else {
			p.obligation(ok, tag, "assert", "")
		}
		return nil, true
	}
	in[pkg+".verifCover"] = func(p *Path, _ *frame, _ *ssa.Function, a []value) (value, bool) {
		tag, _ := cstr(a[0])
		p.cover(tag)
		return nil, true
	}
	in[pkg+".verifParam"] = func(p *Path, _ *frame, _ *ssa.Function, a []value) (value, bool) {
		name, _ := cstr(a[0])
		def := p.asInt(a[1], "verifParam default")
		if v, ok := p.eng.cfg.Params[name]; ok {
			return ConstInt(64, int64(v)), true
		}
		return ConstInt(64, def), true
	}
	in[pkg+".verifIsNil"] = func(p *Path, _ *frame, _ *ssa.Function, a []value) (value, bool) {
		i := a[0].(iface)
		if i.t == nil {
			return tTrue, true
		}
		switch x := i.v.(type) {
		case *value:
			return Bool(x == nil), true
		case []value:
			return Bool(x == nil), true
		case *Map:
			return Bool(x == nil), true
		case *ssa.Function:
			return Bool(x == nil), true
		}
		return tFalse, true
	}
	// verifOnce(key, f): f is a concrete prologue computing a string; it is
	// executed once per engine run and the result shared by all paths.
	in[pkg+".verifOnce"] = func(p *Path, caller *frame, _ *ssa.Function, a []value) (value, bool) {
		key, _ := cstr(a[0])
		if v, ok := p.eng.once.Load(key); ok {
			return v.(string), true
		}
		r := p.call(caller, a[1], nil, nil)
		s, ok := r.(string)
		if !ok {
			p.unsupported("verifOnce prologue returned a symbolic string")
		}
		p.eng.once.Store(key, s)
		return s, true
	}
	in[pkg+".verifLog"] = func(p *Path, _ *frame, _ *ssa.Function, a []value) (value, bool) { return nil, true }
	in[pkg+".verifIsSymbolic"] = func(p *Path, _ *frame, _ *ssa.Function, a []value) (value, bool) { return tTrue, true }
	in[pkg+".verifPollChan"] = func(p *Path, _ *frame, _ *ssa.Function, a []value) (value, bool) {
		lim := int(p.asInt(a[1], "poll limit"))
		p.pollLimit = lim
		return &chanv{poll: true, fn: a[0]}, true
	}
	in[pkg+".verifPollFired"] = func(p *Path, _ *frame, _ *ssa.Function, a []value) (value, bool) {
		return Bool(p.pollFiredAt > 0), true
	}
	in[pkg+".verifPollCount"] = func(p *Path, _ *frame, _ *ssa.Function, a []value) (value, bool) {
		return ConstInt(64, int64(p.pollCount)), true
	}
	in[pkg+".verifSteps"] = func(p *Path, _ *frame, _ *ssa.Function, a []value) (value, bool) {
		return ConstInt(64, p.steps), true
	}
}

// branchAssume restricts the path to c without forking (the other side is
// deliberately dropped). Returns false if c is infeasible.
func (p *Path) branchAssume(c *Term) bool {
	if c.IsTrue() {
		return true
	}
	if c.IsFalse() {
		return false
	}
	if !p.evalBool(c) {
		r, m := p.check(c)
		if r != "sat" {
			return false
		}
		p.model = m
		p.newEval()
	}
	p.addPC(c)
	return true
}

// ---- unicode ----

func rangeTableTerm(p *Path, rt *unicode.RangeTable, r *Term) *Term {
	tc := &p.tc
	r = tc.Zext(r, 32)
	res := tFalse
	add := func(lo, hi, stride uint32) {
		c := tc.And(tc.Bin(OULe, Const(BV(32), uint64(lo)), r), tc.Bin(OULe, r, Const(BV(32), uint64(hi))))
		if stride != 1 {
			off := tc.Bin(OSub, r, Const(BV(32), uint64(lo)))
			c = tc.And(c, tc.Eq(tc.Bin(OURem, off, Const(BV(32), uint64(stride))), Const(BV(32), 0)))
		}
		res = tc.Or(res, c)
	}
	for _, x := range rt.R16 {
		add(uint32(x.Lo), uint32(x.Hi), uint32(x.Stride))
	}
	for _, x := range rt.R32 {
		add(x.Lo, x.Hi, x.Stride)
	}
	// negative int32 runes are in no table
	return tc.And(res, tc.Bin(OSLe, Const(BV(32), 0), r))
}

func registerUnicode(in map[string]intrinsic) {
	pred := func(name string, f func(rune) bool, tables ...*unicode.RangeTable) {
		in["unicode."+name] = func(p *Path, _ *frame, _ *ssa.Function, a []value) (value, bool) {
			r := a[0].(*Term)
			if r.Op == OConst {
				return Bool(f(rune(int32(r.C)))), true
			}
			res := tFalse
			for _, t := range tables {
				res = p.tc.Or(res, rangeTableTerm(p, t, r))
			}
			return res, true
		}
	}
	pred("IsLetter", unicode.IsLetter, unicode.Letter)
	pred("IsDigit", unicode.IsDigit, unicode.Digit)
	pred("IsUpper", unicode.IsUpper, unicode.Upper)
	pred("IsLower", unicode.IsLower, unicode.Lower)
	pred("IsNumber", unicode.IsNumber, unicode.Number)
	pred("IsMark", unicode.IsMark, unicode.Mark)
	pred("IsPunct", unicode.IsPunct, unicode.Punct)
	pred("IsControl", unicode.IsControl, unicode.Cc)
	in["unicode.IsSpace"] = func(p *Path, _ *frame, _ *ssa.Function, a []value) (value, bool) {
		r := a[0].(*Term)
		if r.Op == OConst {
			return Bool(unicode.IsSpace(rune(int32(r.C)))), true
		}
		return rangeTableTerm(p, unicode.White_Space, r), true
	}
	tabs := func(p *Path, v value) []*unicode.RangeTable {
		var out []*unicode.RangeTable
		switch v := v.(type) {
		case []value:
			for _, e := range v {
				out = append(out, nativeTable(p, e))
			}
		default:
			out = append(out, nativeTable(p, v))
		}
		return out
	}
	isIn := func(p *Path, _ *frame, _ *ssa.Function, a []value) (value, bool) {
		r := a[0].(*Term)
		ts := tabs(p, a[1])
		if r.Op == OConst {
			return Bool(unicode.In(rune(int32(r.C)), ts...)), true
		}
		res := tFalse
		for _, t := range ts {
			res = p.tc.Or(res, rangeTableTerm(p, t, r))
		}
		return res, true
	}
	in["unicode.In"] = isIn
	in["unicode.IsOneOf"] = func(p *Path, c *frame, f *ssa.Function, a []value) (value, bool) {
		return isIn(p, c, f, []value{a[1], a[0]})
	}
	in["unicode.Is"] = func(p *Path, c *frame, f *ssa.Function, a []value) (value, bool) {
		return isIn(p, c, f, []value{a[1], a[0]})
	}
	conv := func(name string, f func(rune) rune) {
		in["unicode."+name] = func(p *Path, _ *frame, _ *ssa.Function, a []value) (value, bool) {
			r := a[0].(*Term)
			if r.Op == OConst {
				return ConstInt(32, int64(f(rune(int32(r.C))))), true
			}
			// ASCII exact; beyond ASCII any rune (stub: case tables not encoded)
			tc := &p.tc
			if p.branch(tc.Bin(OULt, r, Const(BV(32), 0x80))) {
				var res *Term = r
				for c := rune(0); c < 0x80; c++ {
					if m := f(c); m != c {
						res = tc.Ite(tc.Eq(r, Const(BV(32), uint64(c))), Const(BV(32), uint64(m)), res)
					}
				}
				return res, true
			}
			p.stub("unicode." + name + " beyond ASCII (any rune)")
			return tc.Var(BV(32), "unicode."+name), true
		}
	}
	conv("ToLower", unicode.ToLower)
	conv("ToUpper", unicode.ToUpper)
	conv("ToTitle", unicode.ToTitle)
	conv("SimpleFold", unicode.SimpleFold)
}

func nativeTable(p *Path, v value) *unicode.RangeTable {
	if ptr, ok := v.(*value); ok && ptr != nil {
		v = *ptr
	}
	n, ok := v.(*native)
	if !ok || n == nil {
		p.unsupported(fmt.Sprintf("unicode range table given as %T", v))
	}
	return n.v.(*unicode.RangeTable)
}

// ---- regexp ----

func registerRegexp(in map[string]intrinsic) {
	compile := func(must bool) intrinsic {
		return func(p *Path, _ *frame, _ *ssa.Function, a []value) (value, bool) {
			pat, ok := cstr(a[0])
			if !ok {
				p.stub("regexp.Compile(symbolic pattern)")
				// any outcome: error or opaque regexp
				if must {
					return &native{(*regexp.Regexp)(nil)}, true
				}
				b := p.tc.Var(SBool, "regexp.Compile.ok")
				if p.branch(b) {
					return tuple{&native{(*regexp.Regexp)(nil)}, iface{}}, true
				}
				return tuple{(*native)(nil), goErr(p, "error parsing regexp: <stub>: `<pattern>`")}, true
			}
			re, err := regexp.Compile(pat)
			if must {
				if err != nil {
					panic(targetPanic{iface{t: types.Typ[types.String], v: "regexp: Compile: " + err.Error()}})
				}
				return &native{re}, true
			}
			if err != nil {
				return tuple{(*native)(nil), goErr(p, err.Error())}, true
			}
			return tuple{&native{re}, iface{}}, true
		}
	}
	in["regexp.MustCompile"] = compile(true)
	in["regexp.Compile"] = compile(false)
	in["regexp.QuoteMeta"] = func(p *Path, _ *frame, _ *ssa.Function, a []value) (value, bool) {
		s, ok := cstr(a[0])
		if !ok {
			return nil, false
		}
		return regexp.QuoteMeta(s), true
	}
	re := func(p *Path, v value) *regexp.Regexp {
		n, ok := v.(*native)
		if !ok || n == nil {
			p.rtPanic("invalid memory address or nil pointer dereference")
		}
		r, _ := n.v.(*regexp.Regexp)
		return r
	}
	in["(*regexp.Regexp).MatchString"] = func(p *Path, _ *frame, _ *ssa.Function, a []value) (value, bool) {
		r := re(p, a[0])
		if s, ok := cstr(a[1]); ok && r != nil {
			return Bool(r.MatchString(s)), true
		}
		if r != nil {
			if t, ok := p.regexpFormula(r, strBytes(a[1])); ok {
				return t, true
			}
		}
		p.stub("(*regexp.Regexp).MatchString(symbolic)")
		return p.tc.Var(SBool, "regexp.match"), true
	}
	in["(*regexp.Regexp).String"] = func(p *Path, _ *frame, _ *ssa.Function, a []value) (value, bool) {
		r := re(p, a[0])
		if r == nil {
			return "<regexp>", true
		}
		return r.String(), true
	}
	in["(*regexp.Regexp).NumSubexp"] = func(p *Path, _ *frame, _ *ssa.Function, a []value) (value, bool) {
		r := re(p, a[0])
		if r == nil {
			return ConstInt(64, 0), true
		}
		return ConstInt(64, int64(r.NumSubexp())), true
	}
	in["(*regexp.Regexp).ReplaceAllString"] = func(p *Path, _ *frame, _ *ssa.Function, a []value) (value, bool) {
		r := re(p, a[0])
		s, ok1 := cstr(a[1])
		rep, ok2 := cstr(a[2])
		if ok1 && ok2 && r != nil {
			return r.ReplaceAllString(s, rep), true
		}
		if ok2 && r != nil {
			if sb, ok := a[1].(*SymStr); ok {
				if repStr, ok := p.classSplit(r, sb.b); ok {
					// match positions from the representative, expansion of the
					// template ($1, ${1}, $$) over the real (symbolic) bytes
					var out value = ""
					last := 0
					for _, m := range r.FindAllStringSubmatchIndex(repStr, -1) {
						out = strConcat(out, strSlice(a[1], last, m[0]))
						out = strConcat(out, expandTemplate(rep, a[1], m))
						last = m[1]
					}
					out = strConcat(out, strSlice(a[1], last, len(sb.b)))
					return out, true
				}
			}
		}
		p.unsupported("(*regexp.Regexp).ReplaceAllString on symbolic data")
		return nil, true
	}
	// subject: concrete string, or the class-split representative of a symbolic one
	subj := func(p *Path, r *regexp.Regexp, v value) (string, bool) {
		if s, ok := cstr(v); ok {
			return s, true
		}
		if r == nil {
			return "", false
		}
		var bs []*Term
		switch x := v.(type) {
		case *SymStr:
			bs = x.b
		case []value:
			bs = sliceBytes(x)
			if s, ok := mkStr(bs).(string); ok {
				return s, true
			}
		default:
			return "", false
		}
		return p.classSplit(r, bs)
	}
	_ = subj
	in["(*regexp.Regexp).ReplaceAllFunc"] = func(p *Path, caller *frame, _ *ssa.Function, a []value) (value, bool) {
		r := re(p, a[0])
		src := a[1].([]value)
		if r != nil {
			if out, ok := p.replaceAllFuncSingle(caller, r, src, a[2]); ok {
				return out, true
			}
		}
		if rep, ok := subj(p, r, a[1]); ok && r != nil {
			// match positions from the representative; the pieces are the real (symbolic) bytes
			var out []value
			last := 0
			for _, m := range r.FindAllStringIndex(rep, -1) {
				out = append(out, src[last:m[0]]...)
				piece := make([]value, m[1]-m[0])
				copy(piece, src[m[0]:m[1]])
				res := p.call(caller, a[2], []value{piece}, nil).([]value)
				out = append(out, res...)
				last = m[1]
			}
			out = append(out, src[last:]...)
			if out == nil {
				out = []value{}
			}
			return out, true
		}
		p.unsupported("(*regexp.Regexp).ReplaceAllFunc for this pattern on non-ASCII symbolic data")
		return nil, true
	}
	in["(*regexp.Regexp).FindString"] = func(p *Path, _ *frame, _ *ssa.Function, a []value) (value, bool) {
		r := re(p, a[0])
		if rep, ok := subj(p, r, a[1]); ok && r != nil {
			m := r.FindStringIndex(rep)
			if m == nil {
				return "", true
			}
			return strSlice(a[1], m[0], m[1]), true
		}
		p.unsupported("FindString on non-ASCII symbolic data")
		return nil, true
	}
	in["(*regexp.Regexp).FindStringSubmatch"] = func(p *Path, _ *frame, _ *ssa.Function, a []value) (value, bool) {
		r := re(p, a[0])
		if rep, ok := subj(p, r, a[1]); ok && r != nil {
			m := r.FindStringSubmatchIndex(rep)
			if m == nil {
				return []value(nil), true
			}
			out := make([]value, len(m)/2)
			for i := range out {
				if m[2*i] < 0 {
					out[i] = ""
				} else {
					out[i] = strSlice(a[1], m[2*i], m[2*i+1])
				}
			}
			return out, true
		}
		p.unsupported("FindStringSubmatch on symbolic data")
		return nil, true
	}
	in["(*regexp.Regexp).FindStringIndex"] = func(p *Path, _ *frame, _ *ssa.Function, a []value) (value, bool) {
		r := re(p, a[0])
		if s, ok := subj(p, r, a[1]); ok && r != nil {
			return intSlice(r.FindStringIndex(s)), true
		}
		g := 0
		if r != nil {
			g = r.NumSubexp()
		}
		_ = g
		m := p.stubMatch("regexp.FindStringIndex", 0, Const(BV(64), 0), strLen(a[1]))
		if m == nil {
			return []value(nil), true
		}
		return m, true
	}
	in["(*regexp.Regexp).FindStringSubmatchIndex"] = func(p *Path, _ *frame, _ *ssa.Function, a []value) (value, bool) {
		r := re(p, a[0])
		if s, ok := subj(p, r, a[1]); ok && r != nil {
			return intSlice(r.FindStringSubmatchIndex(s)), true
		}
		g := 0
		if r != nil {
			g = r.NumSubexp()
		}
		_ = g
		m := p.stubMatch("regexp.FindStringSubmatchIndex", g, Const(BV(64), 0), strLen(a[1]))
		if m == nil {
			return []value(nil), true
		}
		return m, true
	}
	in["(*regexp.Regexp).FindAllStringIndex"] = func(p *Path, _ *frame, _ *ssa.Function, a []value) (value, bool) {
		r := re(p, a[0])
		n, okn := cterm(a[2])
		if s, ok := subj(p, r, a[1]); ok && r != nil && okn {
			return intSlices(r.FindAllStringIndex(s, int(n.Int()))), true
		}
		lim := int64(-1)
		if okn {
			lim = n.Int()
		}
		return p.stubFindAll("regexp.FindAllStringIndex", 0, strLen(a[1]), lim), true
	}
	in["(*regexp.Regexp).FindAllStringSubmatchIndex"] = func(p *Path, _ *frame, _ *ssa.Function, a []value) (value, bool) {
		r := re(p, a[0])
		n, okn := cterm(a[2])
		if s, ok := subj(p, r, a[1]); ok && r != nil && okn {
			return intSlices(r.FindAllStringSubmatchIndex(s, int(n.Int()))), true
		}
		lim := int64(-1)
		if okn {
			lim = n.Int()
		}
		g := 0
		if r != nil {
			g = r.NumSubexp()
		}
		return p.stubFindAll("regexp.FindAllStringSubmatchIndex", g, strLen(a[1]), lim), true
	}
	in["(*regexp.Regexp).FindAllSubmatchIndex"] = func(p *Path, _ *frame, _ *ssa.Function, a []value) (value, bool) {
		r := re(p, a[0])
		n, okn := cterm(a[2])
		bs := sliceBytes(a[1].([]value))
		if s, ok := subj(p, r, a[1]); ok && r != nil && okn {
			return intSlices(r.FindAllSubmatchIndex([]byte(s), int(n.Int()))), true
		}
		lim := int64(-1)
		if okn {
			lim = n.Int()
		}
		g := 0
		if r != nil {
			g = r.NumSubexp()
		}
		return p.stubFindAll("regexp.FindAllSubmatchIndex", g, len(bs), lim), true
	}
}

// stubMatch returns an arbitrary result allowed by the regexp API contract
// for one (sub)match over a subject of length n starting the search at from:
// nil, or 2*(groups+1) indices with 0 <= from <= s0 <= e0 <= n and every group
// either (-1,-1) or inside [s0,e0].
func (p *Path) stubMatch(name string, groups int, from *Term, n int) []value {
	p.stub(name + " (any result the regexp contract allows)")
	tc := &p.tc
	if !p.branch(tc.Var(SBool, "re.found")) {
		return nil
	}
	out := make([]value, 2*(groups+1))
	s0 := tc.Var(BV(64), "re.s0")
	e0 := tc.Var(BV(64), "re.e0")
	nn := Const(BV(64), uint64(n))
	p.addPC(tc.And(tc.Bin(OULe, from, s0), tc.And(tc.Bin(OULe, s0, e0), tc.Bin(OULe, e0, nn))))
	out[0], out[1] = s0, e0
	for g := 1; g <= groups; g++ {
		if p.branch(tc.Var(SBool, "re.group")) {
			a := tc.Var(BV(64), "re.gs")
			b := tc.Var(BV(64), "re.ge")
			p.addPC(tc.And(tc.Bin(OULe, s0, a), tc.And(tc.Bin(OULe, a, b), tc.Bin(OULe, b, e0))))
			out[2*g], out[2*g+1] = a, b
		} else {
			out[2*g], out[2*g+1] = ConstInt(64, -1), ConstInt(64, -1)
		}
	}
	p.refreshModel()
	return out
}

// refreshModel re-establishes a model of the path condition after constraints
// on fresh variables were added.
func (p *Path) refreshModel() {
	ok := true
	for _, c := range p.pending {
		if !p.evalBool(c) {
			ok = false
			break
		}
	}
	if ok {
		return
	}
	r, m := p.check(tTrue)
	if r != "sat" {
		panic(abortPath{"infeasible", "stub constraints"})
	}
	p.model = m
	p.newEval()
}

func (p *Path) stubFindAll(name string, groups int, n int, limit int64) value {
	var out []value
	from := Const(BV(64), 0)
	for i := 0; i < 2 && (limit < 0 || int64(i) < limit); i++ {
		m := p.stubMatch(name, groups, from, n)
		if m == nil {
			break
		}
		out = append(out, m)
		// next search starts after this match (at least one position later
		// for an empty match)
		e := m[1].(*Term)
		s0 := m[0].(*Term)
		adv := p.tc.Ite(p.tc.Eq(s0, e), p.tc.Bin(OAdd, e, Const(BV(64), 1)), e)
		if !p.branch(p.tc.Bin(OULe, adv, Const(BV(64), uint64(n)))) {
			break
		}
		from = adv
	}
	if out == nil {
		return []value(nil)
	}
	return out
}

func intSlice(x []int) value {
	if x == nil {
		return []value(nil)
	}
	out := make([]value, len(x))
	for i, v := range x {
		out[i] = ConstInt(64, int64(v))
	}
	return out
}

func intSlices(x [][]int) value {
	if x == nil {
		return []value(nil)
	}
	out := make([]value, len(x))
	for i, v := range x {
		out[i] = intSlice(v)
	}
	return out
}

var _ = strings.Contains

// nextConcrete: in concrete mode (cfg.Vector set) nondets read the vector.
func (p *Path) nextConcrete() (uint64, bool) {
	if p.eng.cfg.Vector == nil {
		return 0, false
	}
	i := len(p.nondets)
	if i < len(p.eng.cfg.Vector) {
		return p.eng.cfg.Vector[i], true
	}
	return 0, true
}

// findMethod returns the exported method name of t, or nil.
func (p *Path) findMethod(t types.Type, name string) *ssa.Function {
	sel := p.eng.prog.MethodSets.MethodSet(t).Lookup(nil, name)
	if sel == nil {
		return nil
	}
	return p.eng.prog.MethodValue(sel)
}

// xlanguageParse: a rough well-formedness test for BCP 47 tags standing in for
// golang.org/x/text/language (not vendored into the engine).
func xlanguageParse(s string) (string, error) {
	if s == "" {
		return "", fmt.Errorf("empty")
	}
	for _, c := range s {
		if !(c == '-' || c == '_' || 'a' <= c && c <= 'z' || 'A' <= c && c <= 'Z' || '0' <= c && c <= '9') {
			return "", fmt.Errorf("bad")
		}
	}
	return s, nil
}

// expandTemplate: regexp.Expand for numeric group references only.
// sprintfStrings evaluates a format that uses only %s and %v (and %%) when the
// arguments that are not concrete are strings; ok=false otherwise.
func sprintfStrings(p *Path, format string, args []value) (value, bool) {
	var out value = ""
	next := 0
	symbolic := false
	for i := 0; i < len(format); i++ {
		c := format[i]
		if c != '%' {
			out = strConcat(out, string(c))
			continue
		}
		if i+1 >= len(format) {
			return nil, false
		}
		i++
		switch format[i] {
		case '%':
			out = strConcat(out, "%")
		case 's', 'v':
			if next >= len(args) {
				return nil, false
			}
			a := args[next]
			next++
			if ifc, isIface := a.(iface); isIface {
				a = ifc.v
			}
			if g, ok := p.toGo(a); ok {
				if format[i] == 's' {
					out = strConcat(out, fmt.Sprintf("%s", g))
				} else {
					out = strConcat(out, fmt.Sprintf("%v", g))
				}
				continue
			}
			switch sv := a.(type) {
			case string:
				out = strConcat(out, sv)
			case *SymStr:
				out = strConcat(out, sv)
				symbolic = true
			default:
				return nil, false
			}
		default:
			return nil, false
		}
	}
	if next != len(args) || !symbolic {
		return nil, false // let the concrete path produce Go's exact text (extra-argument notes etc.)
	}
	return out, true
}

func expandTemplate(tmpl string, src value, m []int) value {
	var out value = ""
	for i := 0; i < len(tmpl); i++ {
		c := tmpl[i]
		if c != '$' || i+1 >= len(tmpl) {
			out = strConcat(out, string(c))
			continue
		}
		j := i + 1
		if tmpl[j] == '$' {
			out = strConcat(out, "$")
			i = j
			continue
		}
		brace := tmpl[j] == '{'
		if brace {
			j++
		}
		k := j
		n := 0
		for k < len(tmpl) && tmpl[k] >= '0' && tmpl[k] <= '9' {
			n = n*10 + int(tmpl[k]-'0')
			k++
		}
		if k == j {
			out = strConcat(out, "$")
			continue
		}
		if brace {
			if k < len(tmpl) && tmpl[k] == '}' {
				k++
			}
		}
		if 2*n+1 < len(m) && m[2*n] >= 0 {
			out = strConcat(out, strSlice(src, m[2*n], m[2*n+1]))
		}
		i = k - 1
	}
	return out
}
