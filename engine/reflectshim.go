package main

// A shim for the part of package reflect that otto's bridging code uses on
// primitives, slices and arrays. reflect.Type is an interned handle around a
// go/types type; reflect.Value is an *rval holding the engine value.

import (
	"fmt"
	"go/types"
	"reflect"
	"sync"

	"golang.org/x/tools/go/ssa"
)

type rtypeH struct {
	key string
	t   types.Type
}

var (
	rtypeMu     sync.Mutex
	rtypeIntern = map[string]*native{}
)

func rtypeOf(t types.Type) *native {
	k := typeKey(t)
	rtypeMu.Lock()
	defer rtypeMu.Unlock()
	if n, ok := rtypeIntern[k]; ok {
		return n
	}
	n := &native{v: &rtypeH{key: k, t: t}}
	rtypeIntern[k] = n
	return n
}

type rval struct {
	t    types.Type
	v    value  // the value (copy) when not addressable
	addr value  // *value or *symRef when addressable (v is then ignored)
	ro   bool
}

func (p *Path) rtypeIface(t types.Type) value {
	if t == nil {
		return iface{}
	}
	rp := p.eng.lp.pkgs["reflect"]
	pt := types.NewPointer(rp.Type("rtype").Object().Type())
	return iface{t: pt, v: rtypeOf(t)}
}

func (p *Path) rv(v value) *rval {
	r, ok := v.(*rval)
	if !ok {
		// zero reflect.Value
		return nil
	}
	return r
}

func (p *Path) rget(r *rval) value {
	if r.addr != nil {
		return p.load(r.addr)
	}
	return r.v
}

func kindOf(t types.Type) reflect.Kind {
	switch u := t.Underlying().(type) {
	case *types.Basic:
		switch u.Kind() {
		case types.Bool:
			return reflect.Bool
		case types.Int:
			return reflect.Int
		case types.Int8:
			return reflect.Int8
		case types.Int16:
			return reflect.Int16
		case types.Int32:
			return reflect.Int32
		case types.Int64:
			return reflect.Int64
		case types.Uint:
			return reflect.Uint
		case types.Uint8:
			return reflect.Uint8
		case types.Uint16:
			return reflect.Uint16
		case types.Uint32:
			return reflect.Uint32
		case types.Uint64:
			return reflect.Uint64
		case types.Uintptr:
			return reflect.Uintptr
		case types.Float32:
			return reflect.Float32
		case types.Float64:
			return reflect.Float64
		case types.String:
			return reflect.String
		case types.UnsafePointer:
			return reflect.UnsafePointer
		}
	case *types.Pointer:
		return reflect.Ptr
	case *types.Slice:
		return reflect.Slice
	case *types.Array:
		return reflect.Array
	case *types.Map:
		return reflect.Map
	case *types.Struct:
		return reflect.Struct
	case *types.Interface:
		return reflect.Interface
	case *types.Signature:
		return reflect.Func
	case *types.Chan:
		return reflect.Chan
	}
	return reflect.Invalid
}

func (p *Path) reflectPanic(msg string) {
	// *reflect.ValueError / string panics: a foreign (non-runtime.Error) value
	panic(targetPanic{iface{t: types.Typ[types.String], v: "reflect: " + msg}})
}

func bitSizeOf(t types.Type) int {
	s, _ := sortOfBasic(t.Underlying().(*types.Basic))
	return s.W
}

func registerReflect(in map[string]intrinsic) {
	in["reflect.TypeOf"] = func(p *Path, _ *frame, _ *ssa.Function, a []value) (value, bool) {
		i := a[0].(iface)
		return p.rtypeIface(i.t), true
	}
	in["reflect.ValueOf"] = func(p *Path, _ *frame, _ *ssa.Function, a []value) (value, bool) {
		i := a[0].(iface)
		if i.t == nil {
			return zeroRV(p), true
		}
		return &rval{t: i.t, v: i.v}, true
	}
	// Value.Call of a non-variadic Go function value: the function body is
	// executed by the engine on the unwrapped arguments.
	in["(reflect.Value).Call"] = func(p *Path, fr *frame, _ *ssa.Function, a []value) (value, bool) {
		r := p.rv(a[0])
		if r == nil {
			p.reflectPanic("call of reflect.Value.Call on zero Value")
		}
		sig, ok := r.t.Underlying().(*types.Signature)
		if !ok {
			p.reflectPanic("reflect: call of non-function")
		}
		fnv := p.rget(r)
		switch f := fnv.(type) {
		case nil:
			p.reflectPanic("reflect.Value.Call: call of nil function")
		case *ssa.Function:
			if f == nil {
				p.reflectPanic("reflect.Value.Call: call of nil function")
			}
		case *closure:
			if f == nil {
				p.reflectPanic("reflect.Value.Call: call of nil function")
			}
		}
		in, okIn := a[1].([]value)
		if !okIn || sig.Variadic() || len(in) != sig.Params().Len() {
			return nil, false // beyond the shim
		}
		args := make([]value, len(in))
		for i, v := range in {
			ar := p.rv(v)
			if ar == nil {
				p.reflectPanic("reflect: Call using zero Value argument")
			}
			pt := sig.Params().At(i).Type()
			av := copyVal(p.rget(ar))
			if _, isIface := pt.Underlying().(*types.Interface); isIface {
				if _, srcIface := ar.t.Underlying().(*types.Interface); !srcIface {
					av = iface{t: ar.t, v: av}
				}
			} else if !types.AssignableTo(ar.t, pt) {
				p.reflectPanic("reflect: Call using " + ar.t.String() + " as type " + pt.String())
			}
			args[i] = av
		}
		res := p.call(fr, fnv, args, nil)
		n := sig.Results().Len()
		out := make([]value, n)
		switch n {
		case 0:
		case 1:
			out[0] = &rval{t: sig.Results().At(0).Type(), v: res}
		default:
			tp, okT := res.(tuple)
			if !okT || len(tp) != n {
				return nil, false
			}
			for i := range out {
				out[i] = &rval{t: sig.Results().At(i).Type(), v: tp[i]}
			}
		}
		return out, true
	}
	in["reflect.Zero"] = func(p *Path, _ *frame, _ *ssa.Function, a []value) (value, bool) {
		t := rtypeArg(p, a[0])
		return &rval{t: t, v: zero(t)}, true
	}
	in["reflect.Indirect"] = func(p *Path, _ *frame, _ *ssa.Function, a []value) (value, bool) {
		r := p.rv(a[0])
		if r == nil {
			return a[0], true
		}
		if _, ok := r.t.Underlying().(*types.Pointer); !ok {
			return r, true
		}
		return p.rvElem(r), true
	}
	val := func(name string, f func(p *Path, r *rval, a []value) value) {
		in["(reflect.Value)."+name] = func(p *Path, _ *frame, _ *ssa.Function, a []value) (value, bool) {
			r := p.rv(a[0])
			if r == nil {
				switch name {
				case "IsValid":
					return tFalse, true
				case "Kind":
					return Const(BV(64), uint64(reflect.Invalid)), true
				}
				p.reflectPanic("call of reflect.Value." + name + " on zero Value")
			}
			return f(p, r, a[1:]), true
		}
	}
	val("IsValid", func(p *Path, r *rval, a []value) value { return tTrue })
	val("Kind", func(p *Path, r *rval, a []value) value { return Const(BV(64), uint64(kindOf(r.t))) })
	val("Type", func(p *Path, r *rval, a []value) value { return p.rtypeIface(r.t) })
	val("CanInterface", func(p *Path, r *rval, a []value) value { return Bool(!r.ro) })
	val("CanAddr", func(p *Path, r *rval, a []value) value { return Bool(r.addr != nil) })
	val("CanSet", func(p *Path, r *rval, a []value) value { return Bool(r.addr != nil && !r.ro) })
	val("Interface", func(p *Path, r *rval, a []value) value {
		if _, ok := r.t.Underlying().(*types.Interface); ok {
			return p.rget(r)
		}
		return iface{t: r.t, v: copyVal(p.rget(r))}
	})
	val("Int", func(p *Path, r *rval, a []value) value {
		k := kindOf(r.t)
		if k < reflect.Int || k > reflect.Int64 {
			p.reflectPanic("call of reflect.Value.Int on " + k.String() + " Value")
		}
		return p.tc.Sext(p.rget(r).(*Term), 64)
	})
	val("Uint", func(p *Path, r *rval, a []value) value {
		k := kindOf(r.t)
		if k < reflect.Uint || k > reflect.Uintptr {
			p.reflectPanic("call of reflect.Value.Uint on " + k.String() + " Value")
		}
		return p.tc.Zext(p.rget(r).(*Term), 64)
	})
	val("Float", func(p *Path, r *rval, a []value) value {
		switch kindOf(r.t) {
		case reflect.Float64:
			return p.rget(r)
		case reflect.Float32:
			return p.tc.apply(OFToFP, SF64, 0, p.rget(r).(*Term))
		}
		p.reflectPanic("call of reflect.Value.Float on " + kindOf(r.t).String() + " Value")
		return nil
	})
	val("Bool", func(p *Path, r *rval, a []value) value {
		if kindOf(r.t) != reflect.Bool {
			p.reflectPanic("call of reflect.Value.Bool on " + kindOf(r.t).String() + " Value")
		}
		return p.rget(r)
	})
	val("String", func(p *Path, r *rval, a []value) value {
		if kindOf(r.t) != reflect.String {
			return "<" + r.t.String() + " Value>"
		}
		return p.rget(r)
	})
	val("IsNil", func(p *Path, r *rval, a []value) value {
		v := p.rget(r)
		switch x := v.(type) {
		case *value:
			return Bool(x == nil)
		case []value:
			return Bool(x == nil)
		case *Map:
			return Bool(x == nil)
		case iface:
			return Bool(x.t == nil)
		case *ssa.Function:
			return Bool(x == nil)
		case *closure, *nativeFn:
			return tFalse
		case *chanv:
			return Bool(x == nil)
		case *native:
			return Bool(x == nil)
		}
		p.reflectPanic("call of reflect.Value.IsNil on " + kindOf(r.t).String() + " Value")
		return nil
	})
	val("Elem", func(p *Path, r *rval, a []value) value { return p.rvElem(r) })
	val("Pointer", func(p *Path, r *rval, a []value) value {
		// an opaque non-zero address (only used for naming / identity by otto)
		switch x := p.rget(r).(type) {
		case *ssa.Function:
			if x == nil {
				return Const(BV(64), 0)
			}
		case *value:
			if x == nil {
				return Const(BV(64), 0)
			}
		}
		return Const(BV(64), 0x10000)
	})
	val("Len", func(p *Path, r *rval, a []value) value {
		switch x := p.rget(r).(type) {
		case []value:
			return ConstInt(64, int64(len(x)))
		case array:
			return ConstInt(64, int64(len(x)))
		case string:
			return ConstInt(64, int64(len(x)))
		case *SymStr:
			return ConstInt(64, int64(len(x.b)))
		case *Map:
			if x == nil {
				return ConstInt(64, 0)
			}
			return ConstInt(64, int64(x.n))
		}
		p.reflectPanic("call of reflect.Value.Len on " + kindOf(r.t).String() + " Value")
		return nil
	})
	val("Cap", func(p *Path, r *rval, a []value) value {
		switch x := p.rget(r).(type) {
		case []value:
			return ConstInt(64, int64(cap(x)))
		case array:
			return ConstInt(64, int64(len(x)))
		}
		p.reflectPanic("call of reflect.Value.Cap on " + kindOf(r.t).String() + " Value")
		return nil
	})
	val("Index", func(p *Path, r *rval, a []value) value {
		idx := a[0].(*Term)
		switch u := r.t.Underlying().(type) {
		case *types.Slice:
			sl := p.rget(r).([]value)
			i64 := p.reflectBounds(idx, len(sl))
			return &rval{t: u.Elem(), addr: p.elemAddr(sl, i64), ro: r.ro}
		case *types.Array:
			if r.addr != nil {
				ap := r.addr.(*value)
				arr := (*ap).(array)
				i64 := p.reflectBounds(idx, len(arr))
				return &rval{t: u.Elem(), addr: p.elemAddr([]value(arr), i64), ro: r.ro}
			}
			arr := r.v.(array)
			i64 := p.reflectBounds(idx, len(arr))
			i := p.concretize(i64, "reflect Index")
			return &rval{t: u.Elem(), v: arr[i], ro: r.ro}
		case *types.Basic:
			if u.Info()&types.IsString != 0 {
				s := p.rget(r)
				i64 := p.reflectBounds(idx, strLen(s))
				return &rval{t: types.Typ[types.Uint8], v: p.index(s, i64, false)}
			}
		}
		p.reflectPanic("call of reflect.Value.Index on " + kindOf(r.t).String() + " Value")
		return nil
	})
	val("Set", func(p *Path, r *rval, a []value) value {
		x := p.rv(a[0])
		if r.addr == nil || r.ro {
			p.reflectPanic("reflect.Value.Set using unaddressable value")
		}
		if x == nil {
			p.reflectPanic("call of reflect.Value.Set on zero Value")
		}
		if _, isIface := r.t.Underlying().(*types.Interface); isIface {
			if _, srcIface := x.t.Underlying().(*types.Interface); srcIface {
				p.store(r.addr, p.rget(x))
			} else {
				p.store(r.addr, iface{t: x.t, v: copyVal(p.rget(x))})
			}
			return nil
		}
		if !types.AssignableTo(x.t, r.t) {
			p.reflectPanic("reflect.Set: value of type " + x.t.String() + " is not assignable to type " + r.t.String())
		}
		p.store(r.addr, p.rget(x))
		return nil
	})
	val("SetLen", func(p *Path, r *rval, a []value) value {
		if r.addr == nil {
			p.reflectPanic("reflect.Value.SetLen using unaddressable value")
		}
		sl := p.rget(r).([]value)
		n := a[0].(*Term)
		ok := p.tc.Bin(OULe, n, Const(BV(64), uint64(cap(sl))))
		if !p.branch(ok) {
			p.reflectPanic("reflect: slice length out of range in SetLen")
		}
		p.store(r.addr, sl[:p.concretize(n, "SetLen")])
		return nil
	})
	val("MethodByName", func(p *Path, r *rval, a []value) value {
		// only for types without methods (unnamed slices, arrays, maps, basic types): no such method
		if types.NewMethodSet(r.t).Len() != 0 || types.NewMethodSet(types.NewPointer(r.t)).Len() != 0 {
			panic(abortPath{"unsupported", "reflect.Value.MethodByName on a type with methods: " + r.t.String()})
		}
		return zeroRV(p)
	})
	val("Slice", func(p *Path, r *rval, a []value) value {
		sl, isSlice := p.rget(r).([]value)
		if !isSlice {
			p.reflectPanic("call of reflect.Value.Slice on " + kindOf(r.t).String() + " Value (only slices are modelled)")
		}
		i, j := a[0].(*Term), a[1].(*Term)
		// 0 <= i <= j <= cap, as signed ints
		ok := p.tc.And(p.tc.Bin(OSLe, Const(BV(64), 0), i), p.tc.And(p.tc.Bin(OSLe, i, j), p.tc.Bin(OSLe, j, Const(BV(64), uint64(cap(sl))))))
		if !p.branch(ok) {
			p.reflectPanic("reflect.Value.Slice: slice index out of bounds")
		}
		lo := int(p.concretize(i, "reflect Slice low"))
		hi := int(p.concretize(j, "reflect Slice high"))
		return &rval{t: r.t, v: sl[lo:hi:cap(sl)], ro: r.ro}
	})
	val("Convert", func(p *Path, r *rval, a []value) value {
		t := rtypeArg(p, a[0])
		if !types.ConvertibleTo(r.t, t) {
			p.reflectPanic("reflect.Value.Convert: value of type " + r.t.String() + " cannot be converted to type " + t.String())
		}
		if _, isIface := t.Underlying().(*types.Interface); isIface {
			return &rval{t: t, v: iface{t: r.t, v: copyVal(p.rget(r))}}
		}
		return &rval{t: t, v: p.conv(t, r.t, p.rget(r))}
	})
	val("OverflowInt", func(p *Path, r *rval, a []value) value {
		k := kindOf(r.t)
		if k < reflect.Int || k > reflect.Int64 {
			p.reflectPanic("reflect.Value.OverflowInt on " + k.String())
		}
		w := bitSizeOf(r.t)
		x := a[0].(*Term)
		if w == 64 {
			return tFalse
		}
		tr := p.tc.Sext(p.tc.Extract(x, w-1, 0), 64)
		return p.tc.Not(p.tc.Eq(tr, x))
	})
	val("OverflowUint", func(p *Path, r *rval, a []value) value {
		k := kindOf(r.t)
		if k < reflect.Uint || k > reflect.Uintptr {
			p.reflectPanic("reflect.Value.OverflowUint on " + k.String())
		}
		w := bitSizeOf(r.t)
		x := a[0].(*Term)
		if w == 64 {
			return tFalse
		}
		tr := p.tc.Zext(p.tc.Extract(x, w-1, 0), 64)
		return p.tc.Not(p.tc.Eq(tr, x))
	})
	val("OverflowFloat", func(p *Path, r *rval, a []value) value {
		switch kindOf(r.t) {
		case reflect.Float64:
			return tFalse
		case reflect.Float32:
			x := a[0].(*Term)
			ax := p.tc.Un(OFAbs, x)
			// math.MaxFloat32 < |x| <= MaxFloat64
			return p.tc.And(p.tc.Bin(OFLt, ConstF64(3.40282346638528859811704183484516925440e+38), ax), p.tc.Bin(OFLe, ax, ConstF64(1.79769313486231570814527423731704356798070e+308)))
		}
		p.reflectPanic("reflect.Value.OverflowFloat on " + kindOf(r.t).String())
		return nil
	})
	in["reflect.MakeSlice"] = func(p *Path, _ *frame, _ *ssa.Function, a []value) (value, bool) {
		t := rtypeArg(p, a[0])
		st, ok := t.Underlying().(*types.Slice)
		if !ok {
			p.reflectPanic("reflect.MakeSlice of non-slice type")
		}
		n := p.asInt(a[1], "MakeSlice len")
		c := p.asInt(a[2], "MakeSlice cap")
		if n < 0 || c < n {
			p.reflectPanic("reflect.MakeSlice: negative len or len > cap")
		}
		sl := make([]value, c)
		for i := range sl {
			sl[i] = zero(st.Elem())
		}
		return &rval{t: t, v: sl[:n]}, true
	}
	in["reflect.Append"] = func(p *Path, _ *frame, _ *ssa.Function, a []value) (value, bool) {
		r := p.rv(a[0])
		sl := p.rget(r).([]value)
		et := r.t.Underlying().(*types.Slice).Elem()
		for _, x := range a[1].([]value) {
			xr := p.rv(x)
			if !types.AssignableTo(xr.t, et) {
				p.reflectPanic("reflect.Append: value of type " + xr.t.String() + " is not assignable to type " + et.String())
			}
			sl = append(sl, copyVal(p.rget(xr)))
		}
		return &rval{t: r.t, v: sl}, true
	}
	in["reflect.Copy"] = func(p *Path, _ *frame, _ *ssa.Function, a []value) (value, bool) {
		d, s := p.rv(a[0]), p.rv(a[1])
		dst := p.rget(d).([]value)
		var src []value
		switch x := p.rget(s).(type) {
		case []value:
			src = x
		case array:
			src = x
		}
		n := len(dst)
		if len(src) < n {
			n = len(src)
		}
		for i := 0; i < n; i++ {
			dst[i] = copyVal(src[i])
		}
		return ConstInt(64, int64(n)), true
	}
	// reflect.Type methods used on the interned handle
	in["reflect.PointerTo"] = func(p *Path, _ *frame, _ *ssa.Function, a []value) (value, bool) {
		return p.rtypeIface(types.NewPointer(rtypeArg(p, a[0]))), true
	}
	in["reflect.PtrTo"] = in["reflect.PointerTo"]
	in["reflect.SliceOf"] = func(p *Path, _ *frame, _ *ssa.Function, a []value) (value, bool) {
		return p.rtypeIface(types.NewSlice(rtypeArg(p, a[0]))), true
	}
}

func zeroRV(p *Path) value {
	rp := p.eng.lp.pkgs["reflect"]
	return zero(rp.Type("Value").Object().Type())
}

func rtypeArg(p *Path, v value) types.Type {
	i, ok := v.(iface)
	if !ok || i.t == nil {
		p.rtPanic("invalid memory address or nil pointer dereference")
	}
	n, ok := i.v.(*native)
	if !ok {
		p.unsupported(fmt.Sprintf("reflect.Type implemented by %T", i.v))
	}
	return n.v.(*rtypeH).t
}

func (p *Path) rvElem(r *rval) value {
	switch u := r.t.Underlying().(type) {
	case *types.Pointer:
		ptr := p.rget(r)
		if pp, ok := ptr.(*value); ok && pp == nil {
			return zeroRV(p)
		}
		return &rval{t: u.Elem(), addr: ptr}
	case *types.Interface:
		i := p.rget(r).(iface)
		if i.t == nil {
			return zeroRV(p)
		}
		return &rval{t: i.t, v: i.v}
	}
	p.reflectPanic("call of reflect.Value.Elem on " + kindOf(r.t).String() + " Value")
	return nil
}

func (p *Path) reflectBounds(idx *Term, n int) *Term {
	inb := p.tc.Bin(OULt, idx, Const(BV(64), uint64(n)))
	if !p.branch(inb) {
		p.reflectPanic("reflect: slice index out of range")
	}
	return idx
}

func (p *Path) elemAddr(elems []value, i64 *Term) value {
	if i64.Op == OConst {
		return &elems[i64.C]
	}
	if allTerms(elems) {
		return &symRef{elems: elems, idx: i64}
	}
	return &elems[p.concretize(i64, "reflect index")]
}

// methods on reflect.Type handles
func (p *Path) callNativeMethod(m *nativeMethod, args []value) value {
	if h, ok := m.recv.v.(*rtypeH); ok {
		t := h.t
		switch m.name {
		case "Kind":
			return Const(BV(64), uint64(kindOf(t)))
		case "String":
			return types.TypeString(t, func(p *types.Package) string { return p.Name() })
		case "Name":
			if n, ok := t.(*types.Named); ok {
				return n.Obj().Name()
			}
			if b, ok := t.(*types.Basic); ok {
				return b.Name()
			}
			return ""
		case "PkgPath":
			if n, ok := t.(*types.Named); ok && n.Obj().Pkg() != nil {
				return n.Obj().Pkg().Path()
			}
			return ""
		case "Elem":
			switch u := t.Underlying().(type) {
			case *types.Pointer:
				return p.rtypeIface(u.Elem())
			case *types.Slice:
				return p.rtypeIface(u.Elem())
			case *types.Array:
				return p.rtypeIface(u.Elem())
			case *types.Map:
				return p.rtypeIface(u.Elem())
			case *types.Chan:
				return p.rtypeIface(u.Elem())
			}
			p.reflectPanic("reflect: Elem of invalid type " + t.String())
		case "Key":
			if u, ok := t.Underlying().(*types.Map); ok {
				return p.rtypeIface(u.Key())
			}
		case "Len":
			if u, ok := t.Underlying().(*types.Array); ok {
				return ConstInt(64, u.Len())
			}
		case "Bits":
			if b, ok := t.Underlying().(*types.Basic); ok {
				if s, ok := sortOfBasic(b); ok {
					return ConstInt(64, int64(s.W))
				}
			}
		case "NumMethod":
			ms := p.eng.prog.MethodSets.MethodSet(t)
			n := 0
			for i := 0; i < ms.Len(); i++ {
				if ms.At(i).Obj().Exported() {
					n++
				}
			}
			return ConstInt(64, int64(n))
		case "NumIn":
			if s, ok := t.Underlying().(*types.Signature); ok {
				return ConstInt(64, int64(s.Params().Len()))
			}
		case "NumOut":
			if s, ok := t.Underlying().(*types.Signature); ok {
				return ConstInt(64, int64(s.Results().Len()))
			}
		case "IsVariadic":
			if s, ok := t.Underlying().(*types.Signature); ok {
				return Bool(s.Variadic())
			}
		case "In":
			if s, ok := t.Underlying().(*types.Signature); ok {
				return p.rtypeIface(s.Params().At(int(p.asInt(args[0], "Type.In"))).Type())
			}
		case "Out":
			if s, ok := t.Underlying().(*types.Signature); ok {
				return p.rtypeIface(s.Results().At(int(p.asInt(args[0], "Type.Out"))).Type())
			}
		case "Implements":
			u := rtypeArg(p, args[0])
			it, ok := u.Underlying().(*types.Interface)
			if !ok {
				p.reflectPanic("reflect: non-interface type passed to Type.Implements")
			}
			return Bool(types.Implements(t, it))
		case "AssignableTo":
			return Bool(types.AssignableTo(t, rtypeArg(p, args[0])))
		case "ConvertibleTo":
			return Bool(types.ConvertibleTo(t, rtypeArg(p, args[0])))
		case "Comparable":
			return Bool(types.Comparable(t))
		}
	}
	p.unsupported("method " + m.name + " on opaque host object")
	return nil
}
